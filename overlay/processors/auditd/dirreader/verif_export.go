//go:build verif

package dirreader

import (
	"context"
	"os"

	"github.com/fsnotify/fsnotify"
)

// This file is mounted into the package by /verif/bin/genoverlay (it is not
// part of the repository). It contains no logic: it lets the harness start the
// real LogDirReader loop over an in-memory file system and event source.

// VerifFile is the file abstraction the reader uses.
type VerifFile = statReadSeekCloser

type verifFS struct {
	open func(string) (VerifFile, error)
}

func (v *verifFS) Open(p string) (statReadSeekCloser, error) { return v.open(p) }

type verifWatcher struct {
	ch <-chan fsnotify.Event
}

func (v *verifWatcher) Events() <-chan fsnotify.Event { return v.ch }
func (v *verifWatcher) Close() error                  { return nil }

// VerifStart mirrors StartLogDirReader with the file system and the watcher
// replaced.
func VerifStart(ctx context.Context, dirPath string, entries []os.DirEntry,
	open func(string) (VerifFile, error), events <-chan fsnotify.Event) *LogDirReader {
	r := &LogDirReader{
		dirPath:       dirPath,
		initFileNames: sortLogNamesOldToNew(entries),
		watcher:       &verifWatcher{ch: events},
		fs:            &verifFS{open: open},
		lines:         make(chan string),
		initFilesDone: make(chan struct{}),
		done:          make(chan struct{}),
	}

	go r.loop(ctx)

	return r
}
