// Package dump renders any Go value, including unexported fields, into a
// canonical string: maps sorted by key rendering, pointers followed (cycles
// cut), known pointers replaced by harness labels, times replaced by a
// harness-supplied rendering, uninteresting types skipped. It names no field
// of the code under test, so it survives refactorings and automatically
// includes state a change adds.
package dump

import (
	"fmt"
	"reflect"
	"sort"
	"strings"
	"sync"
	"time"
	"unsafe"
)

type Dumper struct {
	// Labels replaces a pointer value (by address) with a label.
	Labels map[unsafe.Pointer]string
	// Time renders a time value (e.g. as a rank); nil = UnixNano.
	Time func(time.Time) string
	// SkipType reports types whose values are not part of the state.
	SkipType func(reflect.Type) bool
}

var timeType = reflect.TypeOf(time.Time{})

func (d *Dumper) String(v any) string {
	var b strings.Builder
	d.walk(&b, reflect.ValueOf(v), map[unsafe.Pointer]bool{})
	return b.String()
}

func (d *Dumper) walk(b *strings.Builder, v reflect.Value, seen map[unsafe.Pointer]bool) {
	if !v.IsValid() {
		b.WriteString("nil")
		return
	}
	v = unRO(v)
	t := v.Type()
	if d.SkipType != nil && d.SkipType(t) {
		b.WriteString("_")
		return
	}
	if t == timeType {
		tm := v.Interface().(time.Time)
		if d.Time != nil {
			b.WriteString(d.Time(tm))
		} else {
			fmt.Fprintf(b, "t%d", tm.UnixNano())
		}
		return
	}
	switch v.Kind() {
	case reflect.Ptr:
		if v.IsNil() {
			b.WriteString("nil")
			return
		}
		p := unsafe.Pointer(v.Pointer())
		if l, ok := d.Labels[p]; ok {
			b.WriteString("&" + l)
			return
		}
		if seen[p] {
			b.WriteString("&cycle")
			return
		}
		seen[p] = true
		b.WriteString("&")
		d.walk(b, v.Elem(), seen)
		delete(seen, p)
	case reflect.Interface:
		if v.IsNil() {
			b.WriteString("nil")
			return
		}
		d.walk(b, v.Elem(), seen)
	case reflect.Struct:
		if t.Name() == "Map" && (t.PkgPath() == "sync" || strings.HasSuffix(t.PkgPath(), "/vsync")) && v.CanAddr() {
			// a concurrent map (sync.Map, or the shim around one): its internals contain a per-map random hash
			// seed and bookkeeping that differs between two runs of one history; its CONTENT is what is state
			var sm *sync.Map
			if t.PkgPath() == "sync" {
				sm = (*sync.Map)(unsafe.Pointer(v.UnsafeAddr()))
			} else if f := v.FieldByName("real"); f.IsValid() && f.CanAddr() {
				sm = (*sync.Map)(unsafe.Pointer(f.UnsafeAddr()))
			}
			if sm != nil {
				type kv struct{ k, v string }
				var items []kv
				sm.Range(func(k, val any) bool {
					var kb, vb strings.Builder
					d.walk(&kb, reflect.ValueOf(k), seen)
					d.walk(&vb, reflect.ValueOf(val), seen)
					items = append(items, kv{kb.String(), vb.String()})
					return true
				})
				sort.Slice(items, func(i, j int) bool { return items[i].k < items[j].k })
				b.WriteString("syncmap[")
				for i, it := range items {
					if i > 0 {
						b.WriteString(" ")
					}
					b.WriteString(it.k + ":" + it.v)
				}
				b.WriteString("]")
				return
			}
		}
		b.WriteString(t.Name() + "{")
		for i := 0; i < v.NumField(); i++ {
			if i > 0 {
				b.WriteString(",")
			}
			b.WriteString(t.Field(i).Name + ":")
			d.walk(b, v.Field(i), seen)
		}
		b.WriteString("}")
	case reflect.Map:
		if v.IsNil() {
			b.WriteString("map[]")
			return
		}
		type kv struct{ k, v string }
		var items []kv
		it := v.MapRange()
		for it.Next() {
			var kb, vb strings.Builder
			d.walk(&kb, it.Key(), seen)
			d.walk(&vb, it.Value(), seen)
			items = append(items, kv{kb.String(), vb.String()})
		}
		sort.Slice(items, func(i, j int) bool { return items[i].k < items[j].k })
		b.WriteString("map[")
		for i, it := range items {
			if i > 0 {
				b.WriteString(" ")
			}
			b.WriteString(it.k + ":" + it.v)
		}
		b.WriteString("]")
	case reflect.Slice, reflect.Array:
		if v.Kind() == reflect.Slice && v.IsNil() {
			b.WriteString("[]")
			return
		}
		b.WriteString("[")
		for i := 0; i < v.Len(); i++ {
			if i > 0 {
				b.WriteString(" ")
			}
			d.walk(b, v.Index(i), seen)
		}
		b.WriteString("]")
	case reflect.String:
		fmt.Fprintf(b, "%q", v.String())
	case reflect.Bool:
		fmt.Fprintf(b, "%v", v.Bool())
	case reflect.Int, reflect.Int8, reflect.Int16, reflect.Int32, reflect.Int64:
		fmt.Fprintf(b, "%d", v.Int())
	case reflect.Uint, reflect.Uint8, reflect.Uint16, reflect.Uint32, reflect.Uint64, reflect.Uintptr:
		fmt.Fprintf(b, "%d", v.Uint())
	case reflect.Float32, reflect.Float64:
		fmt.Fprintf(b, "%g", v.Float())
	case reflect.Func, reflect.Chan, reflect.UnsafePointer:
		if v.IsNil() {
			b.WriteString("nil")
		} else {
			b.WriteString(t.String())
		}
	default:
		b.WriteString("?" + t.String())
	}
}

// unRO clears the read-only flag reflect puts on values reached through
// unexported fields, so that they can be read with Interface().
func unRO(v reflect.Value) reflect.Value {
	type rv struct {
		typ, ptr unsafe.Pointer
		flag     uintptr
	}
	const flagRO = 1<<5 | 1<<6
	(*rv)(unsafe.Pointer(&v)).flag &^= flagRO
	return v
}
