package pdaemon // needs:daemon
