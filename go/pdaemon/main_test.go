package pdaemon

import (
	"fmt"
	"os"
	"testing"

	"github.com/metal-toolbox/audito-maldito/internal/verif/mc"
)

var exitCode = 2

func TestMain(m *testing.M) {
	if os.Getenv("VERIF_PROP") == "" {
		os.Exit(m.Run())
	}
	m.Run()
	os.Exit(exitCode)
}

func TestCheck(t *testing.T) {
	prop := os.Getenv("VERIF_PROP")
	if prop == "" {
		t.Skip()
	}
	run := mc.Start(prop)
	switch prop {
	case "C08":
		exitCode = runC08(run)
	case "C10":
		exitCode = runC10c(run)
	case "C01":
		exitCode = runC01daemon(run)
	default:
		fmt.Println("unknown property", prop)
	}
}
