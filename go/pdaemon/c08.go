package pdaemon

import (
	"errors"
	"fmt"
	"io"
	"net"
	"os"
	"path/filepath"
	"sort"
	"strings"
	"syscall"
	"time"
	"unsafe"

	"github.com/metal-toolbox/audito-maldito/internal/verif/auditgen"
	"github.com/metal-toolbox/audito-maldito/internal/verif/mc"
)

const exitBound = 10 * time.Second

// looks like a record, cannot be parsed
const badAuditLine = "type=SYSCALL msg=audit(notatime:xyz): arch=c000003e syscall=59\n"

type cellResult struct {
	Cell         string  `json:"cell"`
	Verdict      string  `json:"verdict"` // ok | violation | inconclusive
	ExitCode     int     `json:"exit_code"`
	LatencyS     float64 `json:"latency_s"`
	Detail       string  `json:"detail"`
	Saturated    bool    `json:"saturated"`
	WriterBlocks int     `json:"writer_blocked_times"`
}

// flood keeps the audit FIFO full with valid records (sessions that are never
// correlated, so nothing is written). It reports how often the pipe was full
// (EAGAIN): with a full pipe the ingester is not reading, which happens only
// while it is blocked on the full 10000-slot line buffer.
type flooder struct {
	fd      int
	blocked int
	written int
	// the pipe stayed full (no byte accepted) for this long: the ingester is not reading,
	// i.e. it is blocked handing a line to the full buffer
	fullSince   time.Time
	longestFull time.Duration
	stop        chan struct{}
	done        chan struct{}
	inject      chan string
}

func startFlood(fd int) *flooder {
	f := &flooder{fd: fd, stop: make(chan struct{}), done: make(chan struct{}), inject: make(chan string, 1)}
	_ = syscall.SetNonblock(fd, true)
	// single-record events (each one is coalesced and handed to the correlator, which is
	// slower than reading lines off the pipe) of a session that is never correlated;
	// sequence numbers keep increasing
	seq := 50000
	next := func() []byte {
		var batch strings.Builder
		for i := 0; i < 200; i++ {
			seq++
			batch.WriteString(auditgen.Simple("USER_START", 1700000100+int64(seq/1000), seq, "999", "31337", "success").Recs[0].Line + "\n")
		}
		return []byte(batch.String())
	}
	go func() {
		defer close(f.done)
		for {
			select {
			case <-f.stop:
				return
			case s := <-f.inject:
				f.writeAll([]byte(s))
			default:
			}
			if !f.writeAll(next()) {
				return
			}
		}
	}()
	return f
}

// writeAll writes whole records (never a torn line); false = reader is gone.
func (f *flooder) writeAll(p []byte) bool {
	for len(p) > 0 {
		n, err := syscall.Write(f.fd, p)
		if n > 0 {
			p = p[n:]
			f.written += n
			f.fullSince = time.Time{}
		}
		if err == syscall.EAGAIN {
			f.blocked++
			if f.fullSince.IsZero() {
				f.fullSince = time.Now()
			}
			if d := time.Since(f.fullSince); d > f.longestFull {
				f.longestFull = d
			}
			select {
			case <-f.stop:
				// finish the current line so that the stream stays well-formed
				// (best effort and bounded in time: a daemon that no longer drains its pipe - the very thing some
				// cells detect - must not be able to hang the driver)
				if i := strings.IndexByte(string(p), '\n'); i >= 0 && len(p) > 0 {
					rest := p[:i+1]
					for until := time.Now().Add(2 * time.Second); len(rest) > 0 && time.Now().Before(until); {
						n, err := syscall.Write(f.fd, rest)
						if n > 0 {
							rest = rest[n:]
						}
						if err != nil && err != syscall.EAGAIN {
							break
						}
						if err == syscall.EAGAIN {
							time.Sleep(time.Millisecond)
						}
					}
				}
				return false
			default:
			}
			time.Sleep(200 * time.Microsecond)
			continue
		}
		if err != nil {
			return false
		}
	}
	return true
}

// sshdForms: one line of every message form the sshd processor turns into an event.
var sshdForms = map[string]string{
	"accepted-publickey":     "Accepted publickey for bob from 1.2.3.4 port 5 ssh2: RSA SHA256:YI+caZKJCNaXgsD0NvRZ2fLaEeF46cEVyadru/SL76o",
	"accepted-certificate":   "Accepted publickey for bob from 1.2.3.4 port 5 ssh2: RSA-CERT SHA256:YI+caZKJCNaXgsD0NvRZ2fLaEeF46cEVyadru/SL76o ID k (serial 7) CA ED25519 SHA256:Pcs5TWfcOSKb7Rw/XyvHfUcaQzmw6HtLrjUoyXuzIj8",
	"accepted-password":      "Accepted password for bob from 1.2.3.4 port 5 ssh2",
	"invalid-user":           "Invalid user bob from 1.2.3.4 port 5",
	"max-auth-attempts":      "maximum authentication attempts exceeded for bob from 1.2.3.4 port 5 ssh2",
	"failed-password":        "Failed password for invalid user bob from 1.2.3.4 port 5 ssh2",
	"shell-does-not-exist":   "User bob not allowed because shell /bin/zsh does not exist",
	"shell-not-executable":   "User bob not allowed because shell /bin/zsh is not executable",
	"bad-owner-or-modes":     "Authentication refused for bob: bad owner or modes for /home/bob/.ssh/authorized_keys",
	"certificate-invalid":    "Certificate invalid: expired",
	"root-login-refused":     "ROOT LOGIN REFUSED FROM 1.2.3.4 port 5",
	"nasty-ptr":              `Nasty PTR record "evil.example.com" is set up for 1.2.3.4, ignoring`,
	"reverse-mapping-failed": "reverse mapping checking getaddrinfo for evil.example.com [1.2.3.4] failed.",
	"does-not-map-back":      "Address 1.2.3.4 maps to evil.example.com, but this does not map back to the address.",
	"revoked-key":            "Authentication key RSA SHA256:YI+caZKJCNaXgsD0NvRZ2fLaEeF46cEVyadru/SL76o revoked by file /etc/ssh/revoked",
	"revoked-key-error":      "Error checking authentication key RSA SHA256:YI+caZKJCNaXgsD0NvRZ2fLaEeF46cEVyadru/SL76o in revoked keys file /etc/ssh/revoked",
}

func runtimeCell(cause, load string) cellResult {
	res := cellResult{Cell: cause + "/" + load}
	d := &daemon{dir: newDir()}
	defer os.RemoveAll(d.dir)
	d.sshdPath = filepath.Join(d.dir, "sshd-pipe")
	d.auditPath = filepath.Join(d.dir, "audit-pipe")
	d.outPath = filepath.Join(d.dir, "events.log")
	mkfifo(d.sshdPath)
	mkfifo(d.auditPath)
	var outReader *os.File
	switch {
	case strings.HasPrefix(cause, "output-dev-full"):
		d.outPath = "/dev/full"
	case cause == "output-fifo-reader-left", load == "stalled-output":
		mkfifo(d.outPath)
	default:
		_ = os.WriteFile(d.outPath, nil, 0o644)
	}
	if err := d.start(false); err != nil {
		res.Verdict, res.Detail = "inconclusive", "cannot start daemon: "+err.Error()
		return res
	}
	defer d.kill()
	if cause == "output-fifo-reader-left" || load == "stalled-output" {
		// the daemon blocks opening the output until a reader shows up
		fd, err := syscall.Open(d.outPath, syscall.O_RDONLY|syscall.O_NONBLOCK, 0)
		if err != nil {
			res.Verdict, res.Detail = "inconclusive", "cannot open output fifo: "+err.Error()
			return res
		}
		outReader = os.NewFile(uintptr(fd), d.outPath)
	}
	sw, err := d.openWriter(d.sshdPath, 10*time.Second)
	if err != nil {
		res.Verdict, res.Detail = "inconclusive", err.Error()
		return res
	}
	defer sw.Close()
	aw, err := d.openWriter(d.auditPath, 10*time.Second)
	if err != nil {
		res.Verdict, res.Detail = "inconclusive", err.Error()
		return res
	}
	defer aw.Close()
	time.Sleep(50 * time.Millisecond)
	if outReader != nil && load != "stalled-output" {
		outReader.Close()
	}
	if load == "stalled-output" {
		defer outReader.Close() // held open, never read
		// correlate the flood's session so that every flood event is written to the (undrained) output
		_, _ = sw.WriteString("31337 Accepted password for flood from 10.0.0.9 port 9 ssh2\n")
		_, _ = aw.WriteString(auditgen.Simple("LOGIN", 1700000099, 49999, "999", "31337", "1").Recs[0].Line + "\n")
		time.Sleep(100 * time.Millisecond)
	}
	var fl *flooder
	if load != "idle" {
		fl = startFlood(int(aw.Fd()))
		deadline := time.Now().Add(15 * time.Second)
		need := func() bool {
			if load == "stalled-output" {
				// nobody drains the events FIFO: the whole pipeline backs up and the audit pipe stays full
				return fl.longestFull >= 300*time.Millisecond
			}
			// flow equilibrium: many times the capacity of the line buffer written, pipe repeatedly full
			return fl.written >= 8<<20 && fl.blocked >= 50
		}
		for !need() && time.Now().Before(deadline) {
			time.Sleep(5 * time.Millisecond)
		}
		res.WriterBlocks = fl.blocked
		res.Saturated = need()
		if !res.Saturated {
			close(fl.stop)
			res.Verdict, res.Detail = "inconclusive", "could not keep the audit pipe full (the daemon consumes faster than the driver writes)"
			return res
		}
	}
	if load == "idle-after-saturation" {
		// the flood ends, the daemon catches up, the audit writer stays connected and silent: whatever the
		// workers did while the line buffer was full, they are idle on their open pipes again when the cause comes
		close(fl.stop)
		<-fl.done
		fl = nil
		for until := time.Now().Add(20 * time.Second); time.Now().Before(until); time.Sleep(10 * time.Millisecond) {
			if pipeBytes(aw) == 0 {
				break
			}
		}
		time.Sleep(1500 * time.Millisecond) // the 10 000 buffered lines are worked off
	}
	// fire the cause
	t0 := time.Now()
	wantNonZero := true
	switch cause {
	case "sshd-pipe-eof":
		sw.Close()
	case "sshd-writer-dies-mid-line-and-another-connects":
		// the log writer dies in the middle of a line (end of stream right after an unterminated record) and a
		// replacement connects a moment later, while the consumer of the events comes back: the end of stream
		// that happened must still end the daemon, however busy the worker was when it happened
		_, _ = sw.WriteString("4242 Accepted publickey for core from 10.0.0.7 port 51234 ssh2: ED25519 SHA256:qM6MXh9sUr")
		sw.Close()
		time.Sleep(300 * time.Millisecond)
		if w2, err := d.openWriter(d.sshdPath, time.Second); err == nil {
			defer w2.Close()
		}
		if load == "stalled-output" {
			go func() { _, _ = io.Copy(io.Discard, outReader) }()
		}
	case "audit-pipe-eof":
		if fl != nil {
			close(fl.stop)
			<-fl.done
			fl = nil
		}
		aw.Close()
	case "unparsable-audit-line":
		if fl != nil {
			fl.inject <- badAuditLine
		} else {
			_, _ = aw.WriteString(badAuditLine)
		}
	case "login-record-with-unparsable-pid":
		// a failure reported by the correlator (not by the parser): the kernel LOGIN record's pid is not a number
		l := strings.Replace(auditgen.Simple("LOGIN", 1700000200, 60001, "4242", "777", "1").Recs[0].Line, "pid=777", "pid=abc", 1) + "\n"
		if fl != nil {
			fl.inject <- l
		} else {
			_, _ = aw.WriteString(l)
		}
	case "invalid-login-with-another-login-buffered":
		// the correlator rejects the first login (pid 0) and the audit worker stops with that error while
		// the sshd worker already holds the next login and has nobody to hand it to
		_, _ = sw.WriteString("0 Accepted password for alice from 1.2.3.4 port 5 ssh2\n4711 Accepted password for bob from 1.2.3.4 port 6 ssh2\n4712 Accepted password for carol from 1.2.3.4 port 7 ssh2\n")
	case "output-fifo-reader-leaves-while-both-workers-write":
		// (stalled-output load only) the audit worker is inside write(2) on the full events FIFO; the sshd worker
		// joins it there with an event of its own; then the consumer goes away for good: both writes fail (EPIPE)
		// at the same moment, and the daemon ends
		_, _ = sw.WriteString("4711 Failed password for bob from 1.2.3.4 port 5 ssh2\n")
		time.Sleep(300 * time.Millisecond)
		t0 = time.Now()
		outReader.Close()
	case "output-dev-full", "output-fifo-reader-left":
		_, _ = sw.WriteString("4711 Failed password for bob from 1.2.3.4 port 5 ssh2\n")
	default:
		// output-dev-full:<message form>: the write that fails is the event of that sshd message
		if f := strings.TrimPrefix(cause, "output-dev-full:"); f != cause {
			_, _ = sw.WriteString("4711 " + sshdForms[f] + "\n")
		}
	case "sigterm":
		_ = d.cmd.Process.Signal(syscall.SIGTERM)
		wantNonZero = false
	case "sigint":
		_ = d.cmd.Process.Signal(syscall.SIGINT)
		wantNonZero = false
	}
	exited, code := d.waitExit(exitBound)
	res.LatencyS = time.Since(t0).Seconds()
	res.ExitCode = code
	if fl != nil {
		close(fl.stop)
		<-fl.done
		res.WriterBlocks = fl.blocked
	}
	switch {
	case !exited:
		res.Verdict = "violation"
		res.Detail = fmt.Sprintf("the daemon is still running %v after the cause; stderr: %s", exitBound, tail(d.stderr.String(), 2))
	case wantNonZero && code == 0:
		res.Verdict = "violation"
		res.Detail = "the daemon exited with status 0 after a worker failure"
	default:
		res.Verdict = "ok"
		res.Detail = tail(d.stderr.String(), 1)
	}
	return res
}

// signalBeforeWriters: SIGTERM/SIGINT while both ingesters still wait for a writer to open their pipe.
// signalInheritedIgnored: the daemon was started with the signal's disposition set to "ignore"; the signal must
// end it all the same.
func signalInheritedIgnored(sig syscall.Signal, name, trap string) cellResult {
	res := cellResult{Cell: name + "/started-with-the-signal-ignored"}
	d := &daemon{dir: newDir(), ignoreSig: trap}
	defer os.RemoveAll(d.dir)
	d.sshdPath = filepath.Join(d.dir, "sshd-pipe")
	d.auditPath = filepath.Join(d.dir, "audit-pipe")
	d.outPath = filepath.Join(d.dir, "events.log")
	mkfifo(d.sshdPath)
	mkfifo(d.auditPath)
	_ = os.WriteFile(d.outPath, nil, 0o644)
	if err := d.start(false); err != nil {
		res.Verdict, res.Detail = "inconclusive", err.Error()
		return res
	}
	defer d.kill()
	sw, err := d.openWriter(d.sshdPath, 10*time.Second)
	if err != nil {
		res.Verdict, res.Detail = "inconclusive", err.Error()
		return res
	}
	defer sw.Close()
	aw, err := d.openWriter(d.auditPath, 10*time.Second)
	if err != nil {
		res.Verdict, res.Detail = "inconclusive", err.Error()
		return res
	}
	defer aw.Close()
	time.Sleep(100 * time.Millisecond)
	t0 := time.Now()
	_ = d.cmd.Process.Signal(sig)
	exited, code := d.waitExit(exitBound)
	res.LatencyS, res.ExitCode = time.Since(t0).Seconds(), code
	if !exited {
		res.Verdict, res.Detail = "violation", fmt.Sprintf("the daemon is still running %v after %s; it had been started with that signal ignored (inherited disposition)", exitBound, name)
	} else {
		res.Verdict, res.Detail = "ok", tail(d.stderr.String(), 1)
	}
	return res
}

func signalBeforeWriters(sig syscall.Signal, name string, pathChange ...string) cellResult {
	res := cellResult{Cell: name + "/no-writer-has-opened-the-pipes"}
	noOutput := len(pathChange) > 0 && pathChange[0] == "events-output-missing"
	if noOutput {
		// the events output does not exist (yet): the daemon waits for it to appear - and stops waiting when told to
		res.Cell = name + "/waiting-for-the-events-output-to-appear"
		pathChange = nil
	}
	if len(pathChange) > 0 {
		res.Cell += "+audit-pipe-path-" + pathChange[0]
	}
	d := &daemon{dir: newDir()}
	defer os.RemoveAll(d.dir)
	d.sshdPath = filepath.Join(d.dir, "sshd-pipe")
	d.auditPath = filepath.Join(d.dir, "audit-pipe")
	d.outPath = filepath.Join(d.dir, "events.log")
	mkfifo(d.sshdPath)
	mkfifo(d.auditPath)
	if !noOutput {
		_ = os.WriteFile(d.outPath, nil, 0o644)
	}
	if err := d.start(false); err != nil {
		res.Verdict, res.Detail = "inconclusive", err.Error()
		return res
	}
	defer d.kill()
	time.Sleep(300 * time.Millisecond)
	if len(pathChange) > 0 {
		// whoever manages the pipes removes (and re-makes) one while the daemon waits on it
		_ = os.Remove(d.auditPath)
		if pathChange[0] == "recreated" {
			mkfifo(d.auditPath)
		}
		time.Sleep(50 * time.Millisecond)
	}
	t0 := time.Now()
	_ = d.cmd.Process.Signal(sig)
	exited, code := d.waitExit(exitBound)
	res.LatencyS, res.ExitCode = time.Since(t0).Seconds(), code
	if !exited {
		res.Verdict, res.Detail = "violation", fmt.Sprintf("the daemon is still running %v after %s although it was only waiting for its pipes to be opened", exitBound, name)
		// release the blocked open(2) calls so that kill() can reap it
		for _, p := range []string{d.sshdPath, d.auditPath} {
			if fd, err := syscall.Open(p, syscall.O_WRONLY|syscall.O_NONBLOCK, 0); err == nil {
				syscall.Close(fd)
			}
		}
	} else {
		res.Verdict, res.Detail = "ok", tail(d.stderr.String(), 1)
	}
	return res
}

// httpCell: the daemon serves /metrics and the health endpoints (-metrics -healthz, fixed port 2112) and a client
// is stalled in the middle of a response (it pipelined many requests and never reads) at the moment of the cause.
// The HTTP side must not keep the process alive.
func httpCell(cause string) cellResult {
	res := cellResult{Cell: cause + "/http-client-stalled-mid-response"}
	if c, err := net.DialTimeout("tcp", "127.0.0.1:2112", 200*time.Millisecond); err == nil {
		c.Close()
		res.Verdict, res.Detail = "inconclusive", "TCP port 2112 (hard-wired in cmd/cmd.go) is in use by another process"
		return res
	}
	d := &daemon{dir: newDir(), extraArgs: []string{"-metrics", "-healthz", "-audit-metrics", "-log-level", "debug"}}
	defer os.RemoveAll(d.dir)
	d.sshdPath = filepath.Join(d.dir, "sshd-pipe")
	d.auditPath = filepath.Join(d.dir, "audit-pipe")
	d.outPath = filepath.Join(d.dir, "events.log")
	mkfifo(d.sshdPath)
	mkfifo(d.auditPath)
	_ = os.WriteFile(d.outPath, nil, 0o644)
	if err := d.start(false); err != nil {
		res.Verdict, res.Detail = "inconclusive", err.Error()
		return res
	}
	defer d.kill()
	sw, err := d.openWriter(d.sshdPath, 10*time.Second)
	if err != nil {
		res.Verdict, res.Detail = "inconclusive", err.Error()
		return res
	}
	defer sw.Close()
	aw, err := d.openWriter(d.auditPath, 10*time.Second)
	if err != nil {
		res.Verdict, res.Detail = "inconclusive", err.Error()
		return res
	}
	defer aw.Close()
	var conn net.Conn
	for until := time.Now().Add(10 * time.Second); time.Now().Before(until); time.Sleep(20 * time.Millisecond) {
		if conn, err = net.DialTimeout("tcp", "127.0.0.1:2112", 200*time.Millisecond); err == nil {
			break
		}
		select {
		case <-d.exited:
			res.Verdict, res.Detail = "inconclusive", "the daemon exited during start-up (port 2112 taken?): "+tail(d.stderr.String(), 2)
			return res
		default:
		}
	}
	if conn == nil {
		res.Verdict, res.Detail = "inconclusive", "the HTTP server did not come up on port 2112"
		return res
	}
	defer conn.Close()
	if tc, ok := conn.(*net.TCPConn); ok {
		_ = tc.SetReadBuffer(4096)
	}
	// a quick sanity request on a second connection: the server answers
	if c2, err := net.DialTimeout("tcp", "127.0.0.1:2112", time.Second); err == nil {
		_, _ = c2.Write([]byte("GET /readyz HTTP/1.1\r\nHost: x\r\nConnection: close\r\n\r\n"))
		_ = c2.SetReadDeadline(time.Now().Add(2 * time.Second))
		b, _ := io.ReadAll(c2)
		c2.Close()
		if !strings.HasPrefix(string(b), "HTTP/1.1 ") {
			res.Verdict, res.Detail = "inconclusive", "no HTTP answer on /readyz"
			return res
		}
	}
	// pipeline requests until the server stops taking them (its responses have nowhere to go), never read
	req := []byte(strings.Repeat("GET /metrics HTTP/1.1\r\nHost: x\r\n\r\n", 64))
	// "stalled" = the server takes no byte at all for 3 x 400 ms in a row (a server that is merely slow still
	// takes some): its handler is then stuck in Write, because its responses have nowhere to go
	stalled := false
	sent, dry := 0, 0
	var werr error
	for until := time.Now().Add(30 * time.Second); !stalled && time.Now().Before(until); {
		_ = conn.SetWriteDeadline(time.Now().Add(400 * time.Millisecond))
		n, err := conn.Write(req)
		sent += n
		if err == nil {
			dry = 0
			continue
		}
		werr = err
		var ne net.Error
		if !errors.As(err, &ne) || !ne.Timeout() {
			break
		}
		if n == 0 {
			dry++
		} else {
			dry = 0
		}
		stalled = dry >= 3
	}
	res.Detail = fmt.Sprintf("pipelined %d request bytes until %v", sent, werr)
	res.Saturated = stalled
	if !stalled {
		res.Verdict, res.Detail = "inconclusive", "could not stall the HTTP response: "+res.Detail
		return res
	}
	t0 := time.Now()
	wantNonZero := true
	switch cause {
	case "audit-pipe-eof":
		aw.Close()
	case "sigterm":
		_ = d.cmd.Process.Signal(syscall.SIGTERM)
		wantNonZero = false
	}
	exited, code := d.waitExit(exitBound)
	res.LatencyS, res.ExitCode = time.Since(t0).Seconds(), code
	switch {
	case !exited:
		res.Verdict, res.Detail = "violation", fmt.Sprintf("the daemon is still running %v after the cause while an HTTP client is stalled mid-response", exitBound)
	case wantNonZero && code == 0:
		res.Verdict, res.Detail = "violation", "the daemon exited with status 0 after a worker failure"
	default:
		res.Verdict, res.Detail = "ok", res.Detail+"; "+tail(d.stderr.String(), 1)
	}
	return res
}

func startupCell(which, kind string) cellResult {
	res := cellResult{Cell: "startup/" + which + "-is-" + kind}
	d := &daemon{dir: newDir()}
	defer os.RemoveAll(d.dir)
	d.sshdPath = filepath.Join(d.dir, "sshd-pipe")
	d.auditPath = filepath.Join(d.dir, "audit-pipe")
	d.outPath = filepath.Join(d.dir, "events.log")
	_ = os.WriteFile(d.outPath, nil, 0o644)
	bad := d.sshdPath
	if which == "audit" {
		bad = d.auditPath
		mkfifo(d.sshdPath)
	} else {
		mkfifo(d.auditPath)
	}
	switch kind {
	case "regular-file":
		_ = os.WriteFile(bad, []byte("x\n"), 0o644)
	case "directory":
		_ = os.Mkdir(bad, 0o755)
	case "missing":
	}
	t0 := time.Now()
	if err := d.start(false); err != nil {
		res.Verdict, res.Detail = "inconclusive", err.Error()
		return res
	}
	defer d.kill()
	// keep the healthy pipe open like rsyslog would, so that only the
	// misconfigured path can make the daemon stop
	good := d.auditPath
	if which == "audit" {
		good = d.sshdPath
	}
	go func() {
		if w, err := d.openWriter(good, exitBound); err == nil {
			<-d.exited
			w.Close()
		}
	}()
	exited, code := d.waitExit(exitBound)
	res.LatencyS = time.Since(t0).Seconds()
	res.ExitCode = code
	switch {
	case !exited:
		res.Verdict, res.Detail = "violation", fmt.Sprintf("the daemon keeps running although its %s input path is a %s", which, kind)
	case code == 0:
		res.Verdict, res.Detail = "violation", "exit status 0"
	default:
		res.Verdict, res.Detail = "ok", tail(d.stderr.String(), 1)
	}
	return res
}

func runC08(run *mc.Run) int {
	causes := []string{"sshd-pipe-eof", "audit-pipe-eof", "unparsable-audit-line", "login-record-with-unparsable-pid", "invalid-login-with-another-login-buffered", "output-dev-full", "output-fifo-reader-left", "sigterm", "sigint"}
	var results []cellResult
	inconclusive := 0
	judge := func(r cellResult) {
		results = append(results, r)
		fmt.Printf("  %-45s %-12s exit=%d latency=%.3fs blocks=%d %s\n", r.Cell, r.Verdict, r.ExitCode, r.LatencyS, r.WriterBlocks, short(r.Detail, 110))
		switch r.Verdict {
		case "violation":
			run.Violation("C08:"+r.Cell, r, r.Cell+": "+r.Detail)
		case "inconclusive":
			inconclusive++
		}
	}
	for _, c := range causes {
		judge(runtimeCell(c, "idle"))
	}
	// the failing write is the event of each of the other message forms in turn (each form has its own code path
	// from the line to the write and back to the worker's return value)
	var forms []string
	for f := range sshdForms {
		forms = append(forms, f)
	}
	sort.Strings(forms)
	for _, f := range forms {
		judge(runtimeCell("output-dev-full:"+f, "idle"))
	}
	for _, c := range causes {
		if !run.Thorough() && (c == "output-dev-full" || c == "sigint" || c == "output-fifo-reader-left" || c == "invalid-login-with-another-login-buffered") {
			continue
		}
		judge(runtimeCell(c, "saturated"))
	}
	// the consumer is stopped for good (the events output is a FIFO nobody drains): line buffer and
	// audit pipe are full and stay full; causes that do not depend on reading further audit lines
	judge(runtimeCell("sshd-writer-dies-mid-line-and-another-connects", "idle"))
	for _, c := range []string{"sigterm", "sshd-pipe-eof", "sigint", "sshd-writer-dies-mid-line-and-another-connects", "output-fifo-reader-leaves-while-both-workers-write"} {
		if !run.Thorough() && c == "sigint" {
			continue
		}
		judge(runtimeCell(c, "stalled-output"))
	}
	// the line buffer was full for a while, then the stream went quiet (writers still connected)
	for _, c := range []string{"sigterm", "sshd-pipe-eof", "sigint", "output-dev-full"} {
		if !run.Thorough() && (c == "sigint" || c == "output-dev-full") {
			continue
		}
		judge(runtimeCell(c, "idle-after-saturation"))
	}
	judge(signalInheritedIgnored(syscall.SIGINT, "sigint", "INT"))
	judge(signalInheritedIgnored(syscall.SIGTERM, "sigterm", "TERM"))
	judge(signalBeforeWriters(syscall.SIGTERM, "sigterm"))
	judge(signalBeforeWriters(syscall.SIGTERM, "sigterm", "removed"))
	judge(signalBeforeWriters(syscall.SIGTERM, "sigterm", "recreated"))
	judge(signalBeforeWriters(syscall.SIGTERM, "sigterm", "events-output-missing"))
	if run.Thorough() {
		judge(signalBeforeWriters(syscall.SIGINT, "sigint"))
		judge(signalBeforeWriters(syscall.SIGINT, "sigint", "events-output-missing"))
	}
	// with the HTTP endpoints enabled and a client stalled mid-response (and, in these cells, debug logging)
	judge(httpCell("audit-pipe-eof"))
	judge(httpCell("sigterm"))
	for _, which := range []string{"sshd", "audit"} {
		for _, kind := range []string{"regular-file", "directory", "missing"} {
			judge(startupCell(which, kind))
		}
	}
	var samples []any
	for i, r := range results {
		if i%4 == 0 {
			samples = append(samples, r)
		}
	}
	sat := 0
	for _, r := range results {
		if r.Saturated {
			sat++
		}
	}
	cov := mc.Coverage{Level: "fault_enumeration", Evaluations: len(results), Distinct: len(results) - inconclusive, Exhaustive: inconclusive == 0, Samples: samples,
		Rule:  "fault enumeration on the built binary over real FIFOs: 10 run-time causes (sshd pipe EOF, sshd writer dying mid-line with a replacement writer connecting 300 ms later (idle and stalled-output only), audit pipe EOF, unparsable audit line, a LOGIN record whose pid is not a number, a login the correlator rejects while the next login is already buffered, output /dev/full (the failing write being the event of a failed password and of each of the 16 sshd message forms in turn), output FIFO whose reader left, SIGTERM, SIGINT) x load {idle, idle-after-saturation (SIGTERM, sshd pipe EOF; thorough also SIGINT, /dev/full): the audit pipe was kept full, then the flood ended and the daemon caught up with its writers still connected, stalled-output (also: the consumer leaves while both workers are inside write(2)): the events FIFO is never drained so the line buffer and the audit pipe stay full (write end accepts no byte for >=300 ms), saturated: a writer keeps the audit FIFO full - single-record events written at full speed, >=8 MB written and the pipe found full >=50 times - flow equilibrium with the 10000-slot line buffer full}, 2 cells with -metrics -healthz -audit-metrics -log-level debug (every optional worker running) and an HTTP client stalled mid-response (pipelined /metrics requests, never read) x {audit pipe EOF, SIGTERM}, SIGTERM before any writer has opened the pipes (also with the audit pipe's path removed / re-created meanwhile) and while the daemon still waits for its events output to appear, SIGINT / SIGTERM to a daemon that was started with that signal ignored (inherited disposition), 6 start-up causes (sshd/audit path is a regular file, a directory, missing); oracle: the process exits within 10 s of the cause, non-zero for failures. A cell whose set-up could not be reached is inconclusive (exit 0, exhaustive=false). distinct_nontrivial = conclusive cells",
		Extra: map[string]any{"cells": results, "saturated_cells_reached": sat, "inconclusive": inconclusive, "bound_s": exitBound.Seconds()}}
	cov.Assumptions = []string{"the OS scheduler is not controlled; 10 s is the property's bounded time against observed millisecond latencies",
		"the decisive blocking state (line buffer full, consumer gone) is also decided deterministically by C13's bubble cells"}
	return run.Finish(cov)
}

func short(s string, n int) string {
	if len(s) > n {
		return s[:n] + "..."
	}
	return s
}

// pipeBytes: bytes waiting in the FIFO behind f (FIONREAD works on either end).
func pipeBytes(f *os.File) int {
	var n int32
	_, _, e := syscall.Syscall(syscall.SYS_IOCTL, f.Fd(), 0x541B, uintptr(unsafe.Pointer(&n)))
	if e != 0 {
		return 0
	}
	return int(n)
}
