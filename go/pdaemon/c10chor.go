package pdaemon

import (
	"encoding/json"
	"fmt"
	"os"
	"path/filepath"
	"strings"
	"syscall"
	"time"
	"unsafe"

	"github.com/metal-toolbox/auditevent"

	"github.com/metal-toolbox/audito-maldito/internal/verif/auditgen"
)

// A choreographed run of the built daemon in which the harness IS the consumer of the events output (a FIFO shrunk
// to two pages, i.e. two kernel buffers; the events are made so large that each needs a buffer of its own) and
// decides, by reading exactly one event, when exactly one blocked write(2) of the daemon may complete. That makes one particular
// meeting of the two workers at the output reproducible instead of a matter of luck:
//
//  1. the audit worker is inside write(2) with an event of a busy, correlated session (the pipe is full);
//  2. the sshd worker produces an event meanwhile (a failed login);
//  3. the consumer lets exactly the audit worker's event through; whatever is written next blocks again;
//  4. the sshd worker now handles the login line of a session whose first records are held;
//  5. the consumer drains everything.
//
// Whatever the daemon does to share the output between its workers, the login's UserLogin line precedes the held
// records' UserAction lines, every line is whole, nothing is lost or doubled.
type pipeReader struct {
	fd  int
	buf []byte
}

func (p *pipeReader) avail() int {
	var n int32
	_, _, _ = syscall.Syscall(syscall.SYS_IOCTL, uintptr(p.fd), 0x541B, uintptr(unsafe.Pointer(&n)))
	return int(n)
}

func (p *pipeReader) read(max int) int {
	b := make([]byte, max)
	n, err := syscall.Read(p.fd, b)
	if err != nil || n <= 0 {
		return 0
	}
	p.buf = append(p.buf, b[:n]...)
	return n
}

// drainUntilQuiet reads everything until nothing has arrived for d.
func (p *pipeReader) drainUntilQuiet(d time.Duration) {
	last := time.Now()
	for time.Since(last) < d {
		if p.read(65536) > 0 {
			last = time.Now()
		} else {
			time.Sleep(time.Millisecond)
		}
	}
}

// stable waits until the number of bytes waiting in the pipe has not changed for d and returns it.
func (p *pipeReader) stable(d time.Duration) int {
	v, since := p.avail(), time.Now()
	for time.Since(since) < d {
		time.Sleep(time.Millisecond)
		if a := p.avail(); a != v {
			v, since = a, time.Now()
		}
	}
	return v
}

func choreographed(gapAfterFailed time.Duration) (msg string, nlines int) {
	d := &daemon{dir: newDir()}
	defer os.RemoveAll(d.dir)
	d.sshdPath = filepath.Join(d.dir, "sshd-pipe")
	d.auditPath = filepath.Join(d.dir, "audit-pipe")
	d.outPath = filepath.Join(d.dir, "events.fifo")
	mkfifo(d.sshdPath)
	mkfifo(d.auditPath)
	mkfifo(d.outPath)
	fd, err := syscall.Open(d.outPath, syscall.O_RDONLY|syscall.O_NONBLOCK, 0)
	if err != nil {
		return "inconclusive: " + err.Error(), 0
	}
	defer syscall.Close(fd)
	_, _, _ = syscall.Syscall(syscall.SYS_FCNTL, uintptr(fd), 1031 /* F_SETPIPE_SZ */, 8192)
	pr := &pipeReader{fd: fd}
	if err := d.start(false); err != nil {
		return "inconclusive: " + err.Error(), 0
	}
	defer d.kill()
	sw, err := d.openWriter(d.sshdPath, 15*time.Second)
	if err != nil {
		return "inconclusive: " + err.Error(), 0
	}
	defer sw.Close()
	aw, err := d.openWriter(d.auditPath, 15*time.Second)
	if err != nil {
		return "inconclusive: " + err.Error(), 0
	}
	defer aw.Close()
	nseq := 0
	group := func(argLen int) string { // one kernel event of the busy session, complete at once (ends in EOE)
		nseq++
		var b strings.Builder
		for _, r := range auditgen.Syscall(1700002000+int64(nseq), 200000+nseq, "100", "20000", "yes", []string{"ls", strings.Repeat("x", argLen)}, 0, true).Recs {
			b.WriteString(r.Line + "\n")
		}
		return b.String()
	}
	// preparation (the consumer keeps up): session 100 of pid 20000 correlated; session 101 of pid 20001 held; two
	// probe events of the busy session to learn how long an event with an argument of a given length comes out
	_, _ = sw.WriteString("20000 Accepted password for user0 from 10.2.0.1 port 30000 ssh2\n")
	_, _ = aw.WriteString(auditgen.Simple("LOGIN", 1700001000, 80000, "100", "20000", "1").Recs[0].Line + "\n" +
		auditgen.Simple("LOGIN", 1700001001, 80003, "101", "20001", "1").Recs[0].Line + "\n" +
		auditgen.Simple("USER_START", 1700001001, 80004, "101", "20001", "success").Recs[0].Line + "\n" +
		auditgen.Simple("USER_ACCT", 1700001001, 80005, "101", "20001", "success").Recs[0].Line + "\n")
	pr.drainUntilQuiet(2800 * time.Millisecond) // (the reassembler lets go of its last record after 2 s)
	if c := strings.Count(string(pr.buf), "\n"); c != 2 {
		return fmt.Sprintf("inconclusive: %d lines after the preparation, expected 2 (UserLogin and LOGIN record of the busy session)", c), c
	}
	lineLen := func(argLen int) int {
		before := len(pr.buf)
		_, _ = aw.WriteString(group(argLen))
		pr.drainUntilQuiet(150 * time.Millisecond)
		return len(pr.buf) - before
	}
	l1, l2 := lineLen(500), lineLen(1000)
	if l2 <= l1 || l1 == 0 {
		return fmt.Sprintf("inconclusive: probe events came out %d and %d bytes long", l1, l2), 0
	}
	// an argument length for which the event line is about 3700 bytes: more than half a page (no two share a kernel
	// buffer), less than a page (one atomic write)
	argLen := 500 + (3700-l1)*500/(l2-l1)
	if got := lineLen(argLen); got < 3300 || got > 4000 {
		return fmt.Sprintf("inconclusive: an event with a %d-byte argument came out %d bytes long", argLen, got), 0
	}
	busyActions := 1 + 3
	// 1. fill both kernel buffers with events of the busy session; the third write of the audit worker blocks
	blocked := false
	for i := 0; i < 6 && !blocked; i++ {
		before := pr.stable(20 * time.Millisecond)
		_, _ = aw.WriteString(group(argLen))
		busyActions++
		after := pr.stable(80 * time.Millisecond)
		blocked = after == before
	}
	if !blocked {
		return "inconclusive: the audit worker's write never blocked on the two-page FIFO", 0
	}
	// 2. the sshd worker's event while the audit worker is inside write(2): a failed login with a long user name
	// (its event does not fit into what is left of a kernel buffer either)
	_, _ = sw.WriteString("40001 Failed password for invalid user " + strings.Repeat("g", 1200) + " from 10.9.0.1 port 1025 ssh2\n")
	time.Sleep(gapAfterFailed)
	// 3. consume exactly one event: one kernel buffer becomes free, exactly one blocked write goes through
	start := len(pr.buf)
	for i := 0; i < 5000 && !strings.HasSuffix(string(pr.buf[start:]), "\n"); i++ {
		pr.read(1)
	}
	time.Sleep(30 * time.Millisecond)
	if os.Getenv("VERIF_DEBUG_CHOR") != "" {
		fmt.Printf("    after step 3: avail=%d consumed=%d\n", pr.avail(), len(pr.buf)-start)
	}
	// 4. the login line of the held session
	_, _ = sw.WriteString("20001 Accepted password for user1 from 10.2.0.2 port 30001 ssh2\n")
	time.Sleep(50 * time.Millisecond)
	// 5. drain
	pr.drainUntilQuiet(2800 * time.Millisecond)
	sw.Close()
	aw.Close()
	if ok, _ := d.waitExit(15 * time.Second); !ok {
		pr.drainUntilQuiet(200 * time.Millisecond)
		return "the daemon did not exit after its input pipes were closed", 0
	}
	pr.drainUntilQuiet(100 * time.Millisecond)
	lines := strings.SplitAfter(string(pr.buf), "\n")
	if len(lines) > 0 && lines[len(lines)-1] == "" {
		lines = lines[:len(lines)-1]
	}
	nlines = len(lines)
	if os.Getenv("VERIF_DEBUG_CHOR") != "" {
		for i, l := range lines {
			var e auditevent.AuditEvent
			_ = json.Unmarshal([]byte(l), &e)
			fmt.Printf("    %2d %s %s pid=%s ses=%s len=%d\n", i+1, e.Type, e.Outcome, short(e.Subjects["pid"], 8), e.Metadata.AuditID, len(l))
		}
	}
	loginAt := map[string]int{}
	actions := map[string]int{}
	seen := map[string]bool{}
	failed := 0
	for i, l := range lines {
		var e auditevent.AuditEvent
		if !strings.HasSuffix(l, "\n") || json.Unmarshal([]byte(l), &e) != nil || e.Type == "" {
			return fmt.Sprintf("output line %d is not one complete JSON event: %q", i+1, short(l, 200)), nlines
		}
		if seen[l] {
			return fmt.Sprintf("output line %d was written twice: %s", i+1, short(l, 200)), nlines
		}
		seen[l] = true
		pid := e.Subjects["pid"]
		switch {
		case e.Type == "UserLogin" && e.Outcome == "succeeded":
			loginAt[pid] = i + 1
		case e.Type == "UserLogin":
			failed++
		case e.Type == "UserAction":
			if loginAt[pid] == 0 {
				return fmt.Sprintf("output line %d: UserAction of the login with pid %s appears before that login's UserLogin event", i+1, pid), nlines
			}
			actions[pid]++
		}
	}
	if loginAt["20000"] == 0 || loginAt["20001"] == 0 || failed != 1 || actions["20000"] != busyActions || actions["20001"] != 3 {
		return fmt.Sprintf("events in the output: UserLogin of pid 20000 at line %d, of pid 20001 at line %d, %d failed logins (want 1), %d actions of the busy session (want %d), %d of the held one (want 3)",
			loginAt["20000"], loginAt["20001"], failed, actions["20000"], busyActions, actions["20001"]), nlines
	}
	return "", nlines
}
