// Package pdaemon drives the built audito-maldito binary over real FIFOs:
// fault enumeration for fail-stop (C08) and write(2)-level observation of the
// events output with strace (C10c). The OS scheduler is not controlled here:
// oracles at this level are order-independent, and time bounds are the
// property's "bounded time" (seconds against observed milliseconds).
package pdaemon

import (
	"bytes"
	"fmt"
	"os"
	"os/exec"
	"path/filepath"
	"strings"
	"sync"
	"syscall"
	"time"
)

type daemon struct {
	extraArgs []string // further command-line flags (e.g. -metrics -healthz)
	ignoreSig string   // "INT" / "TERM": the daemon is started with that signal set to "ignore" (as a background job
	// of a non-interactive shell is, or the child of a process that ignores it)
	dir       string
	sshdPath  string
	auditPath string
	outPath   string
	cmd       *exec.Cmd
	stderr    *lockedBuf
	exited    chan struct{}
	exitErr   error
	strace    string // strace output file ("" = not traced)
}

type lockedBuf struct {
	mu sync.Mutex
	b  bytes.Buffer
}

func (l *lockedBuf) Write(p []byte) (int, error) {
	l.mu.Lock()
	defer l.mu.Unlock()
	return l.b.Write(p)
}

func (l *lockedBuf) String() string {
	l.mu.Lock()
	defer l.mu.Unlock()
	return l.b.String()
}

var cellSeq int

func newDir() string {
	base := os.Getenv("VERIF_BUILD")
	if base == "" {
		base = os.TempDir()
	}
	cellSeq++
	d := filepath.Join(base, fmt.Sprintf("daemon-%d", cellSeq))
	_ = os.RemoveAll(d)
	_ = os.MkdirAll(d, 0o755)
	return d
}

func mkfifo(p string) {
	if err := syscall.Mkfifo(p, 0o600); err != nil {
		panic(err)
	}
}

// start launches the daemon. Paths must have been prepared by the caller.
func (d *daemon) start(trace bool) error {
	bin := os.Getenv("VERIF_DAEMON")
	args := []string{"-sshd-pipe-path", d.sshdPath, "-auditd-pipe-path", d.auditPath, "-app-events-output", d.outPath, "-log-level", "error"}
	args = append(args, d.extraArgs...) // (a later -log-level overrides the earlier one)
	if trace {
		d.strace = filepath.Join(d.dir, "strace.out")
		args = append([]string{"-f", "-qq", "-s", "65536", "-e", "trace=openat,write,close", "-o", d.strace, bin}, args...)
		bin = "strace"
	}
	if d.ignoreSig != "" && !trace {
		args = append([]string{"-c", "trap '' " + d.ignoreSig + "; exec \"$0\" \"$@\"", bin}, args...)
		bin = "/bin/sh"
	}
	d.cmd = exec.Command(bin, args...)
	d.cmd.Env = append(os.Environ(), "NODE_NAME=node-under-test")
	d.stderr = &lockedBuf{}
	d.cmd.Stderr = d.stderr
	d.cmd.Stdout = d.stderr
	d.exited = make(chan struct{})
	if err := d.cmd.Start(); err != nil {
		return err
	}
	go func() {
		d.exitErr = d.cmd.Wait()
		close(d.exited)
	}()
	return nil
}

func (d *daemon) waitExit(timeout time.Duration) (exited bool, code int) {
	select {
	case <-d.exited:
		if d.exitErr == nil {
			return true, 0
		}
		if ee, ok := d.exitErr.(*exec.ExitError); ok {
			if ws, ok := ee.Sys().(syscall.WaitStatus); ok && ws.Signaled() {
				return true, 128 + int(ws.Signal())
			}
			return true, ee.ExitCode()
		}
		return true, -1
	case <-time.After(timeout):
		return false, 0
	}
}

func (d *daemon) kill() {
	if d.cmd != nil && d.cmd.Process != nil {
		_ = d.cmd.Process.Kill()
		<-d.exited
	}
}

// openWriter opens a FIFO for writing, giving up when the daemon exits.
func (d *daemon) openWriter(path string, timeout time.Duration) (*os.File, error) {
	deadline := time.Now().Add(timeout)
	for {
		fd, err := syscall.Open(path, syscall.O_WRONLY|syscall.O_NONBLOCK, 0)
		if err == nil {
			// back to blocking mode for plain writes
			_ = syscall.SetNonblock(fd, false)
			return os.NewFile(uintptr(fd), path), nil
		}
		select {
		case <-d.exited:
			return nil, fmt.Errorf("daemon exited before opening %s: %s", path, tail(d.stderr.String(), 3))
		default:
		}
		if time.Now().After(deadline) {
			return nil, fmt.Errorf("daemon did not open %s for reading within %v", path, timeout)
		}
		time.Sleep(2 * time.Millisecond)
	}
}

func tail(s string, n int) string {
	ls := strings.Split(strings.TrimRight(s, "\n"), "\n")
	if len(ls) > n {
		ls = ls[len(ls)-n:]
	}
	return strings.Join(ls, " | ")
}
