package pdaemon

import (
	"bufio"
	"encoding/json"
	"fmt"
	"os"
	"path/filepath"
	"regexp"
	"strconv"
	"strings"
	"sync"
	"time"

	"github.com/metal-toolbox/auditevent"

	"github.com/metal-toolbox/audito-maldito/internal/verif/auditgen"
	"github.com/metal-toolbox/audito-maldito/internal/verif/mc"
)

type scenario struct {
	Sessions int    `json:"sessions"`
	Shape    string `json:"shape"`  // alternating | simultaneous
	Output   string `json:"output"` // file | fifo
}

var (
	openRE  = regexp.MustCompile(`^(\d+)\s+openat\(AT_FDCWD, "([^"]*)", ([A-Z_|0-9]+)(?:, [0-7]+)?\)\s+= (-?\d+)`)
	writeRE = regexp.MustCompile(`^(\d+)\s+write\((\d+), "((?:[^"\\]|\\.)*)"(\.\.\.)?, (\d+)\)\s+= (-?\d+)`)
	// strace -f splits a call that overlaps with another thread's into two lines
	unfinishedRE = regexp.MustCompile(`^(\d+)\s+(\w+)\((.*) <unfinished \.\.\.>$`)
	resumedRE    = regexp.MustCompile(`^(\d+)\s+<\.\.\. (\w+) resumed>(.*)$`)
)

func unescape(s string) string {
	u, err := strconv.Unquote(`"` + s + `"`)
	if err != nil {
		return s
	}
	return u
}

// previousRun: with output "file-with-content" the events file already holds the events of an earlier run of the
// daemon (a restart): they must still be there, whole, in front of the new ones.
func previousRun(sc scenario) []string {
	if sc.Output != "file-with-content" {
		return nil
	}
	var out []string
	for i := 0; i < 3; i++ {
		out = append(out, fmt.Sprintf(`{"metadata":{"auditId":"prev-%d"},"type":"UserLogin","loggedAt":"2023-01-0%dT00:00:00Z","source":{"type":"IP","value":"10.1.1.%d","extra":{"port":"4%d"}},"outcome":"failed","subjects":{"loggedAs":"previous%d","pid":"%d","userID":"unknown"},"component":"sshd","target":{"host":"n","machine-id":"m"}}`+"\n", i, i+1, i, i, i, 11+i))
	}
	return out
}

func runScenario(sc scenario) (msg string, nlines int, nwrites int) {
	d := &daemon{dir: newDir()}
	defer os.RemoveAll(d.dir)
	d.sshdPath = filepath.Join(d.dir, "sshd-pipe")
	d.auditPath = filepath.Join(d.dir, "audit-pipe")
	d.outPath = filepath.Join(d.dir, "events.log")
	mkfifo(d.sshdPath)
	mkfifo(d.auditPath)
	var lines []string
	var lmu sync.Mutex
	readerDone := make(chan struct{})
	if sc.Output == "fifo" {
		mkfifo(d.outPath)
		go func() {
			defer close(readerDone)
			f, err := os.Open(d.outPath)
			if err != nil {
				return
			}
			defer f.Close()
			r := bufio.NewReaderSize(f, 1<<20)
			for {
				l, err := r.ReadString('\n')
				if l != "" {
					lmu.Lock()
					lines = append(lines, l)
					lmu.Unlock()
				}
				if err != nil {
					return
				}
			}
		}()
	} else {
		_ = os.WriteFile(d.outPath, []byte(strings.Join(previousRun(sc), "")), 0o644)
		close(readerDone)
	}
	if noTrace && sc.Sessions <= 16 && sc.Shape != "sustained" {
		d.extraArgs = []string{"-log-level", "debug"} // the small untraced scenarios also run every logging statement
	}
	if err := d.start(!noTrace); err != nil {
		return "inconclusive: cannot start strace: " + err.Error(), 0, 0
	}
	defer d.kill()
	sw, err := d.openWriter(d.sshdPath, 15*time.Second)
	if err != nil {
		return "inconclusive: " + err.Error(), 0, 0
	}
	aw, err := d.openWriter(d.auditPath, 15*time.Second)
	if err != nil {
		return "inconclusive: " + err.Error(), 0, 0
	}
	n := sc.Sessions
	var sshdLines, auditLines []string
	for i := 0; i < n; i++ {
		pid := 20000 + i
		// each login line is followed by a line that lacks the pid prefix (a continuation line, a template without
		// the pid): its first word stands where the pid belongs, so it is no login of anybody
		sshdLines = append(sshdLines, fmt.Sprintf("%d Accepted password for user%d from 10.2.%d.%d port %d ssh2\n", pid, i, i/250, i%250+1, 30000+i)+
			fmt.Sprintf("Accepted password for intruder%d from 10.66.%d.%d port %d ssh2\n", i, i/250, i%250+1, 40000+i))
		ses := fmt.Sprint(100 + i)
		auditLines = append(auditLines,
			strings.Replace(auditgen.Simple("LOGIN", 1700001000+int64(i), 80000+3*i, ses, fmt.Sprint(pid), "1").Recs[0].Line, "old-ses=4294967295", "old-ses="+fmt.Sprint(100+(i+n-1)%n), 1)+"\n"+
				auditgen.Simple("USER_START", 1700001000+int64(i), 80001+3*i, ses, fmt.Sprint(pid), "success").Recs[0].Line+"\n"+
				auditgen.Simple("CRED_DISP", 1700001000+int64(i), 80002+3*i, ses, fmt.Sprint(pid), "success").Recs[0].Line+"\n")
	}
	// one failed login whose client-chosen name is a complete syslog line announcing a login of session 0's sshd
	// process: it is the record of a failed attempt by pid 39999 and nothing else
	sshdLines[0] += fmt.Sprintf("39999 Invalid user sshd[%d]: Accepted password for root from 10.6.6.6 port 66 ssh2 from 203.0.113.66 port 4444\n", 20000)
	wantActions := map[string]int{}
	for i := 0; i < n; i++ {
		wantActions[fmt.Sprint(20000+i)] = 3
	}
	wantFailed := len(previousRun(sc)) + 1 // (+ the hostile failed attempt above)
	switch sc.Shape {
	case "sustained":
		// both pipelines write to the output at the same time for a long stretch: first every session is
		// correlated (so that its audit events are written, not held), then the sshd side reports failed
		// logins (written by the sshd worker) while the audit side reports activity of the open sessions
		// (written by the audit worker)
		var open strings.Builder
		for i := 0; i < n; i++ {
			open.WriteString(strings.SplitAfter(auditLines[i], "\n")[0])
			wantActions[fmt.Sprint(20000+i)] = 1
		}
		_, _ = sw.WriteString(strings.Join(sshdLines, ""))
		_, _ = aw.WriteString(open.String())
		for until := time.Now().Add(30 * time.Second); time.Now().Before(until); time.Sleep(5 * time.Millisecond) {
			if b, _ := os.ReadFile(d.outPath); strings.Count(string(b), "\n") >= 2*n {
				break
			}
		}
		m := 250 * n
		wantFailed += m
		var failed, activity strings.Builder
		for j := 0; j < m; j++ {
			fmt.Fprintf(&failed, "%d Failed password for invalid user guest%d from 10.9.%d.%d port %d ssh2\n", 40000+j, j, j/250%250, j%250+1, 1024+j%60000)
			i := j % n
			activity.WriteString(auditgen.Simple("USER_START", 1700002000+int64(j), 200000+j, fmt.Sprint(100+i), fmt.Sprint(20000+i), "success").Recs[0].Line + "\n")
			wantActions[fmt.Sprint(20000+i)]++
		}
		var wg sync.WaitGroup
		wg.Add(2)
		go func() { defer wg.Done(); _, _ = sw.WriteString(failed.String()) }()
		go func() { defer wg.Done(); _, _ = aw.WriteString(activity.String()) }()
		wg.Wait()
	case "alternating":
		for i := 0; i < n; i++ {
			if i%2 == 0 {
				_, _ = sw.WriteString(sshdLines[i])
				_, _ = aw.WriteString(auditLines[i])
			} else {
				_, _ = aw.WriteString(auditLines[i])
				_, _ = sw.WriteString(sshdLines[i])
			}
		}
	case "simultaneous":
		var wg sync.WaitGroup
		wg.Add(2)
		go func() { defer wg.Done(); _, _ = sw.WriteString(strings.Join(sshdLines, "")) }()
		go func() { defer wg.Done(); _, _ = aw.WriteString(strings.Join(auditLines, "")) }()
		wg.Wait()
	}
	want := wantFailed
	for _, a := range wantActions {
		want += 1 + a
	}
	deadline := time.Now().Add(30 * time.Second)
	count := func() int {
		if sc.Output == "fifo" {
			lmu.Lock()
			defer lmu.Unlock()
			return len(lines)
		}
		b, _ := os.ReadFile(d.outPath)
		return strings.Count(string(b), "\n")
	}
	// wait until everything expected has been written, or the output has stopped growing for 5 s
	// (then whatever is missing was lost, not merely late), or 90 s
	deadline = time.Now().Add(90 * time.Second)
	last, lastChange := -1, time.Now()
	for time.Now().Before(deadline) {
		c := count()
		if c >= want {
			break
		}
		if c != last {
			last, lastChange = c, time.Now()
		} else if time.Since(lastChange) > 5*time.Second {
			break
		}
		time.Sleep(10 * time.Millisecond)
	}
	time.Sleep(100 * time.Millisecond) // anything written twice would show up now
	sw.Close()                         // EOF on the sshd pipe ends the daemon
	aw.Close()
	if ok, _ := d.waitExit(15 * time.Second); !ok {
		return "the daemon did not exit after its input pipes were closed", 0, 0
	}
	<-readerDone
	if sc.Output != "fifo" {
		b, _ := os.ReadFile(d.outPath)
		lines = strings.SplitAfter(string(b), "\n")
		if len(lines) > 0 && lines[len(lines)-1] == "" {
			lines = lines[:len(lines)-1]
		}
	}
	nlines = len(lines)
	for i, pl := range previousRun(sc) {
		if i >= len(lines) || lines[i] != pl {
			got := "<missing>"
			if i < len(lines) {
				got = lines[i]
			}
			return fmt.Sprintf("the events file held %d events of an earlier run; after this run its line %d reads %q instead of %q", len(previousRun(sc)), i+1, short(got, 120), short(pl, 120)), nlines, 0
		}
	}
	// --- every line is one complete JSON event; multiset as expected; causal order
	loginAt := map[string]int{}
	loginIdentity := map[string]string{}
	actions := map[string]int{}
	seen := map[string]int{}
	failedSeen := 0
	ident := func(e *auditevent.AuditEvent) string {
		b, _ := json.Marshal(map[string]any{"subjects": e.Subjects, "source": e.Source, "target": e.Target})
		return string(b)
	}
	for i, l := range lines {
		var e auditevent.AuditEvent
		if !strings.HasSuffix(l, "\n") || json.Unmarshal([]byte(l), &e) != nil || e.Type == "" {
			return fmt.Sprintf("output line %d is not one complete JSON event: %q", i+1, short(l, 200)), nlines, 0
		}
		seen[l]++
		if seen[l] > 1 {
			return fmt.Sprintf("output line %d was written twice: %s", i+1, short(l, 200)), nlines, 0
		}
		pid := e.Subjects["pid"]
		switch e.Type {
		case "UserLogin":
			if e.Outcome != "succeeded" {
				failedSeen++
				continue
			}
			if loginAt[pid] != 0 {
				return "two UserLogin events for pid " + pid, nlines, 0
			}
			loginAt[pid] = i + 1
			loginIdentity[pid] = ident(&e)
		case "UserAction":
			// C01 at daemon level: the session (auditId) was opened by the LOGIN record of exactly this pid,
			// and the event carries exactly that login's subjects, source and target
			if n, err := strconv.Atoi(pid); err != nil || e.Metadata.AuditID != fmt.Sprint(100+n-20000) {
				return fmt.Sprintf("output line %d: UserAction with auditId %s carries the identity of the login with pid %s, which did not open that session", i+1, e.Metadata.AuditID, pid), nlines, 0
			}
			if loginAt[pid] != 0 && ident(&e) != loginIdentity[pid] {
				return fmt.Sprintf("output line %d: UserAction of session %s carries %s, its login's identity is %s", i+1, e.Metadata.AuditID, ident(&e), loginIdentity[pid]), nlines, 0
			}
			if loginAt[pid] == 0 {
				return fmt.Sprintf("output line %d: UserAction of the login with pid %s appears before that login's UserLogin event", i+1, pid), nlines, 0
			}
			actions[pid]++
		}
	}
	if len(loginAt) != n {
		return fmt.Sprintf("%d UserLogin events for %d logins", len(loginAt), n), nlines, 0
	}
	for i := 0; i < n; i++ {
		if a, w := actions[fmt.Sprint(20000+i)], wantActions[fmt.Sprint(20000+i)]; a != w {
			return fmt.Sprintf("session of pid %d: %d UserAction events in the output, want %d (none lost, none duplicated)", 20000+i, a, w), nlines, 0
		}
	}
	if failedSeen != wantFailed {
		return fmt.Sprintf("%d failed UserLogin events in the output for %d failed-login lines (none lost, none duplicated)", failedSeen, wantFailed), nlines, 0
	}
	if noTrace {
		return "", nlines, 0
	}
	// --- write(2) level: the output is opened once with O_APPEND; each write carries one whole line and is complete
	f, err := os.Open(d.strace)
	if err != nil {
		return "inconclusive: no strace output", nlines, 0
	}
	defer f.Close()
	outFD := map[string]bool{}
	opens := 0
	scn := bufio.NewScanner(f)
	scn.Buffer(make([]byte, 1<<22), 1<<22)
	pending := map[string]string{}
	noAppend := 0
	for scn.Scan() {
		l := scn.Text()
		if m := unfinishedRE.FindStringSubmatch(l); m != nil {
			pending[m[1]] = m[1] + " " + m[2] + "(" + m[3]
			continue
		}
		if m := resumedRE.FindStringSubmatch(l); m != nil {
			if p, ok := pending[m[1]]; ok {
				delete(pending, m[1])
				l = p + m[3]
			}
		}
		if m := openRE.FindStringSubmatch(l); m != nil && m[2] == d.outPath {
			opens++
			if !strings.Contains(m[3], "O_APPEND") {
				noAppend++
			}
			outFD[m[4]] = true
			continue
		}
		if m := writeRE.FindStringSubmatch(l); m != nil && outFD[m[2]] {
			nwrites++
			payload := unescape(m[3])
			req, _ := strconv.Atoi(m[5])
			ret, _ := strconv.Atoi(m[6])
			if ret != req {
				return fmt.Sprintf("write(2) of %d bytes to the events output returned %d (torn event)", req, ret), nlines, nwrites
			}
			if m[4] != "" {
				continue // strace truncated the payload; length check above still applies
			}
			var e auditevent.AuditEvent
			if !strings.HasSuffix(payload, "\n") || strings.Count(payload, "\n") != 1 || json.Unmarshal([]byte(payload), &e) != nil {
				return fmt.Sprintf("a write(2) to the events output does not carry exactly one complete JSON line: %q", short(payload, 200)), nlines, nwrites
			}
		}
	}
	if opens > 1 && noAppend > 0 {
		// several open file descriptions without O_APPEND keep separate offsets: writes overwrite each other
		return fmt.Sprintf("the events output was opened %d times, %d of them without O_APPEND", opens, noAppend), nlines, nwrites
	}
	if nwrites != nlines-len(previousRun(sc)) {
		if b, err := os.ReadFile(d.strace); err == nil {
			_ = os.WriteFile(filepath.Join(os.Getenv("VERIF_DIR"), ".build", "last-strace.out"), b, 0o644)
		}
		return fmt.Sprintf("%d write(2) calls produced %d new output lines (want one write per event)", nwrites, nlines-len(previousRun(sc))), nlines, nwrites
	}
	return "", nlines, nwrites
}

// runC01daemon: C01 through the built daemon (no strace): many sessions in flight, both burst shapes.
func runC01daemon(run *mc.Run) int {
	scs := []scenario{{16, "alternating", "file"}, {16, "simultaneous", "file"}}
	if run.Thorough() {
		scs = append(scs, scenario{2, "alternating", "file"}, scenario{64, "simultaneous", "file"}, scenario{64, "alternating", "file"}, scenario{200, "simultaneous", "file"})
	}
	noTrace = true
	defer func() { noTrace = false }()
	var samples []any
	lines, inconcl := 0, 0
	for _, sc := range scs {
		msg, nl, _ := runScenario(sc)
		lines += nl
		fmt.Printf("  %+v: lines=%d %s\n", sc, nl, msg)
		samples = append(samples, map[string]any{"scenario": sc, "output_lines": nl})
		if strings.HasPrefix(msg, "inconclusive") {
			inconcl++
			continue
		}
		if msg != "" {
			run.Violation(fmt.Sprintf("C01:daemon:%s:%s", sc.Shape, strings.Join(strings.Fields(msg)[:3], "_")), sc, fmt.Sprintf("scenario %+v: %s", sc, msg))
		}
	}
	cov := mc.Coverage{Level: "exploration", Evaluations: len(scs), Distinct: len(scs) - inconcl, Exhaustive: inconcl == 0, Samples: samples,
		Rule:  "daemon level: N sessions (distinct pids, distinct identities) written to the two FIFOs of the built binary in two burst shapes; every UserAction line must carry the identity of the UserLogin whose pid opened its session (auditId), each login's UserLogin once, each session's 3 events once. OS schedules are not enumerated (order-independent oracle). distinct_nontrivial = conclusive scenarios",
		Extra: map[string]any{"output_lines_checked": lines}}
	return run.Finish(cov)
}

var noTrace bool

func runC10c(run *mc.Run) int {
	var scs []scenario
	for _, out := range []string{"file", "fifo"} {
		for _, shape := range []string{"alternating", "simultaneous"} {
			for _, n := range []int{2, 16} {
				if !run.Thorough() && !(out == "file" && n == 16) && !(out == "fifo" && n == 2 && shape == "simultaneous") {
					continue
				}
				scs = append(scs, scenario{n, shape, out})
			}
		}
	}
	if run.Thorough() {
		scs = append(scs, scenario{200, "simultaneous", "file"})
	}
	// a restart: the events file already has content
	scs = append(scs, scenario{2, "alternating", "file-with-content"})
	// without strace (which slows and serialises the daemon): both pipelines writing for a long stretch
	scs = append(scs, scenario{16, "sustained", "file"})
	if run.Thorough() {
		scs = append(scs, scenario{64, "sustained", "file"}, scenario{200, "sustained", "file"})
	}
	inconcl := 0
	var samples []any
	lines := 0
	for _, sc := range scs {
		noTrace = sc.Shape == "sustained"
		msg, nl, nw := runScenario(sc)
		noTrace = false
		lines += nl
		fmt.Printf("  %+v: lines=%d writes=%d %s\n", sc, nl, nw, msg)
		samples = append(samples, map[string]any{"scenario": sc, "output_lines": nl, "write_calls": nw})
		if strings.HasPrefix(msg, "inconclusive") {
			inconcl++
			run.Note("%+v: %s", sc, msg)
			continue
		}
		if msg != "" {
			run.Violation(fmt.Sprintf("C10:daemon:%s:%s:%s", sc.Output, sc.Shape, strings.Join(strings.Fields(msg)[:3], "_")), sc, fmt.Sprintf("scenario %+v: %s", sc, msg))
		}
	}
	// choreographed meetings of the two workers at a one-page events FIFO whose consumer is the harness
	gaps := []time.Duration{0, 5 * time.Millisecond, 50 * time.Millisecond}
	type chorOut struct {
		msg string
		nl  int
	}
	outs := make([]chan chorOut, len(gaps))
	for i, gap := range gaps { // (independent daemons: side by side)
		outs[i] = make(chan chorOut, 1)
		go func(c chan chorOut, gap time.Duration) {
			m, n := choreographed(gap)
			c <- chorOut{m, n}
		}(outs[i], gap)
	}
	for i, gap := range gaps {
		o := <-outs[i]
		msg, nl := o.msg, o.nl
		lines += nl
		fmt.Printf("  choreographed gap=%v: lines=%d %s\n", gap, nl, msg)
		samples = append(samples, map[string]any{"scenario": "choreographed", "gap_after_the_failed_login_ms": gap.Milliseconds(), "output_lines": nl})
		if strings.HasPrefix(msg, "inconclusive") {
			inconcl++
			run.Note("choreographed gap=%v: %s", gap, msg)
			continue
		}
		if msg != "" {
			run.Violation("C10:daemon:choreographed:"+strings.Join(strings.Fields(msg)[:3], "_"), map[string]any{"scenario": "choreographed", "gap_ms": gap.Milliseconds()}, fmt.Sprintf("choreographed run (gap %v): %s", gap, msg))
		}
	}
	cov := mc.Coverage{Level: "exploration", Evaluations: len(scs) + len(gaps), Distinct: len(scs) + len(gaps) - inconcl, Exhaustive: inconcl == 0, Samples: samples,
		Rule:  "the built daemon under strace (-f -e trace=openat,write) with bursts on both FIFOs: sessions {2,16(,200)} x burst shape {alternating, simultaneous} x output {regular file, FIFO}, a regular file that already holds the events of an earlier run (restart), plus - without strace - a sustained stretch in which the sshd worker writes 250 x N failed-login events while the audit worker writes 250 x N actions of N already correlated sessions, and 3 choreographed runs on a two-page events FIFO whose consumer is the harness, with events so large that each takes a kernel buffer of its own (the audit worker blocked inside write(2); a failed-login event of the sshd worker meanwhile; exactly the blocked event let through; then the login line of a session whose records are held; then everything drained); oracle: never several descriptors without O_APPEND, every write(2) on it returns its full length and carries exactly one complete JSON line, every output line parses, none twice, each login's UserLogin precedes its UserActions, per session exactly 1+3 events. OS schedules are not enumerated (order-independent oracle). distinct_nontrivial = conclusive scenarios",
		Extra: map[string]any{"output_lines_checked": lines}}
	cov.Assumptions = []string{"Linux appends a single write(2) to an O_APPEND file atomically (and <= PIPE_BUF to a FIFO)", "strace's rendering of write(2)"}
	return run.Finish(cov)
}
