// Package collide finds, by meet-in-the-middle, printable strings whose 32-bit checksum (FNV-1a, FNV-1,
// CRC-32/IEEE - the ones Go's standard library offers) equals that of another string. Client-chosen text is
// attacker-chosen text: a name that collides with another line's or another name's checksum takes 0.1 s to find,
// so the alphabets of the identity and forgery checks contain such pairs.
package collide

import (
	"hash/crc32"
)

// Hash is an iterated 32-bit checksum with an invertible step.
type Hash struct {
	Name string
	Init uint32
	Step func(h uint32, b byte) uint32
	Inv  func(h uint32, b byte) uint32
}

const fnvPrime = 16777619

func inv32(a uint32) uint32 { // inverse of an odd number modulo 2^32 (Newton)
	x := a
	for i := 0; i < 5; i++ {
		x *= 2 - a*x
	}
	return x
}

var fnvInv = inv32(fnvPrime)

var crcTab = crc32.MakeTable(crc32.IEEE)
var crcTop [256]byte // index of the table entry with a given top byte

func init() {
	for i, v := range crcTab {
		crcTop[v>>24] = byte(i)
	}
}

// Hashes are the three checksums covered.
var Hashes = []Hash{
	{"fnv1a", 2166136261,
		func(h uint32, b byte) uint32 { return (h ^ uint32(b)) * fnvPrime },
		func(h uint32, b byte) uint32 { return (h * fnvInv) ^ uint32(b) }},
	{"fnv1", 2166136261,
		func(h uint32, b byte) uint32 { return (h * fnvPrime) ^ uint32(b) },
		func(h uint32, b byte) uint32 { return (h ^ uint32(b)) * fnvInv }},
	{"crc32", 0xffffffff,
		func(c uint32, b byte) uint32 { return crcTab[byte(c)^b] ^ (c >> 8) },
		func(c uint32, b byte) uint32 {
			i := crcTop[c>>24]
			return ((c ^ crcTab[i]) << 8) | uint32(i^b)
		}},
}

func (h Hash) run(s uint32, text string) uint32 {
	for i := 0; i < len(text); i++ {
		s = h.Step(s, text[i])
	}
	return s
}

// Sum is the internal state after text (for crc32: before the final inversion, which is the same for all inputs).
func (h Hash) Sum(text string) uint32 { return h.run(h.Init, text) }

const alphabet = "abcdefghijklmnopqrstuvwxyzABCDEFGHIJKLMNOPQRSTUVWXYZ0123456789"

// Fill returns six alphanumeric characters x such that Sum(prefix+x+suffix) == Sum(like); "" if none exists
// (about 13 solutions are expected).
func (h Hash) Fill(like, prefix, suffix string) string {
	target := h.Sum(like)
	for i := len(suffix) - 1; i >= 0; i-- {
		target = h.Inv(target, suffix[i])
	}
	start := h.run(h.Init, prefix)
	fwd := make(map[uint32][3]byte, len(alphabet)*len(alphabet)*len(alphabet))
	for _, a := range []byte(alphabet) {
		sa := h.Step(start, a)
		for _, b := range []byte(alphabet) {
			sb := h.Step(sa, b)
			for _, c := range []byte(alphabet) {
				fwd[h.Step(sb, c)] = [3]byte{a, b, c}
			}
		}
	}
	for _, f := range []byte(alphabet) {
		tf := h.Inv(target, f)
		for _, e := range []byte(alphabet) {
			te := h.Inv(tf, e)
			for _, d := range []byte(alphabet) {
				if abc, ok := fwd[h.Inv(te, d)]; ok {
					x := string(abc[:]) + string([]byte{d, e, f})
					if h.Sum(prefix+x+suffix) == h.Sum(like) {
						return x
					}
				}
			}
		}
	}
	return ""
}
