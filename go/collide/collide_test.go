package collide

import (
	"hash/crc32"
	"hash/fnv"
	"testing"
)

func TestFill(t *testing.T) {
	ref := map[string]func(string) uint32{
		"fnv1a": func(s string) uint32 { h := fnv.New32a(); h.Write([]byte(s)); return h.Sum32() },
		"fnv1":  func(s string) uint32 { h := fnv.New32(); h.Write([]byte(s)); return h.Sum32() },
		"crc32": func(s string) uint32 { return crc32.ChecksumIEEE([]byte(s)) },
	}
	for _, h := range Hashes {
		like := "Failed password for alice from 10.0.0.1 port 1 ssh2"
		x := h.Fill(like, "Failed password for mallory-", " from 203.0.113.77 port 65535 ssh2")
		if x == "" {
			t.Fatalf("%s: no solution", h.Name)
		}
		other := "Failed password for mallory-" + x + " from 203.0.113.77 port 65535 ssh2"
		if ref[h.Name](like) != ref[h.Name](other) {
			t.Fatalf("%s: %q and %q do not collide under the library's implementation", h.Name, like, other)
		}
	}
}
