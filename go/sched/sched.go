// Package sched is a cooperative scheduler plus a stateless, deviation-bounded
// depth-first explorer over the interleavings of a few real goroutines.
//
// Exactly one thread runs at a time. A thread stops *before* every vsync
// Lock/RLock/Wait (the vsync shim calls Acquire) and when it ends; the
// scheduler then decides who runs next. A thread is enabled iff the object it
// wants is free. Choice 0 at every point is "the running thread if it is still
// enabled, else the lowest enabled id"; switching away from a running thread
// that is still enabled costs one preemption. Data choices (map iteration
// order) are further choice points that cost nothing.
//
// Every execution is identified by its list of choices and can be replayed; a
// replay that meets a point whose alternatives do not include the recorded
// choice is a hard error.
package sched

import (
	"crypto/sha256"
	"encoding/hex"
	"fmt"
	"runtime"
	"strings"

	"github.com/metal-toolbox/audito-maldito/internal/verif/vsync"
)

// Program is a closed concurrent test program over the real code.
type Program struct {
	Name string
	// Setup builds a fresh instance (and runs any sequential prefix).
	Setup func() any
	// Threads are the concurrent bodies; they run under the scheduler.
	Threads []func(inst any)
	// Finish runs sequentially after all threads ended (probe suffix) and
	// returns the observation that the oracle judges.
	Finish func(inst any) string
	// Shared returns a canonical digest source of all shared state (objects
	// and emitted log). Optional: enables visited-state pruning.
	Shared func(inst any) string
}

type point struct {
	n       int  // number of alternatives
	choice  int  // alternative taken
	thread  bool // thread choice (else data choice)
	preempt bool // alternatives >0 cost a preemption
	label   string
}

type thread struct {
	id      int
	wake    chan bool // true = run, false = abort
	can     func() bool
	what    string
	done    bool
	started bool
	segs    int
	chain   [32]byte
	panicv  any

	blockedAt string
}

// Exec is one execution.
type Exec struct {
	Choices   []int
	points    []point
	Outcome   string
	Deadlock  bool
	Pruned    bool
	Preempts  int
	PrunedAt  int
	keysAfter []string
}

type execState struct {
	prog     *Program
	inst     any
	threads  []*thread
	cur      *thread
	ev       chan struct{}
	prefix   []int
	x        *Exec
	running  bool
	aborting bool
	visited  map[string]struct{}
	usekeys  bool
}

var active *execState

type controller struct{}

func (controller) Managed() bool { return active != nil && active.running }

func (controller) Acquire(obj any, what string, can func() bool) {
	s := active
	t := s.cur
	if s.aborting {
		runtime.Goexit()
	}
	t.can = can
	t.what = fmt.Sprintf("%s(%p)", what, obj)
	s.ev <- struct{}{}
	if !<-t.wake {
		runtime.Goexit()
	}
	t.can = nil
}

// Choose is a data choice point with n alternatives (n>=1); returns the index.
// Outside an execution it returns 0.
func Choose(n int, label string) int {
	s := active
	if s == nil || !s.running || n <= 1 {
		return 0
	}
	c := s.decide(n, false, false, label)
	if s.usekeys && s.cur != nil {
		// the choice is part of what the running thread has observed
		s.cur.chain = sha256.Sum256([]byte(fmt.Sprintf("%x|choice:%d/%d", s.cur.chain, c, n)))
	}
	return c
}

func (s *execState) decide(n int, isThread, preempt bool, label string) int {
	i := len(s.x.points)
	c := 0
	if i < len(s.prefix) {
		c = s.prefix[i]
		if c < 0 || c >= n {
			panic(fmt.Sprintf("sched: replay divergence at point %d: choice %d of %d (%s)", i, c, n, label))
		}
	}
	s.x.points = append(s.x.points, point{n: n, choice: c, thread: isThread, preempt: preempt, label: label})
	s.x.Choices = append(s.x.Choices, c)
	if isThread && preempt && c > 0 {
		s.x.Preempts++
	}
	return c
}

func (s *execState) sharedKey() string {
	var b strings.Builder
	b.WriteString(s.prog.Shared(s.inst))
	for _, t := range s.threads {
		fmt.Fprintf(&b, "|t%d:%v:%d:%x:%s", t.id, t.done, t.segs, t.chain[:8], t.what)
	}
	h := sha256.Sum256([]byte(b.String()))
	return hex.EncodeToString(h[:16])
}

// run executes the program once following prefix, then choice 0.
func run(p *Program, prefix []int, visited map[string]struct{}) *Exec {
	s := &execState{prog: p, prefix: prefix, x: &Exec{PrunedAt: -1}, ev: make(chan struct{}), visited: visited}
	s.usekeys = visited != nil && p.Shared != nil
	active = s
	vsync.Ctl = controller{}
	defer func() { active = nil }()

	s.inst = p.Setup()
	for i := range p.Threads {
		s.threads = append(s.threads, &thread{id: i, wake: make(chan bool)})
	}
	s.running = true
	for i, body := range p.Threads {
		t := s.threads[i]
		body := body
		go func() {
			defer func() {
				// Goexit (abort) and normal return and panic all end here.
				if r := recover(); r != nil {
					t.panicv = r
				}
				t.done = true
				s.ev <- struct{}{}
			}()
			if !<-t.wake {
				return
			}
			body(s.inst)
		}()
	}

	var cur *thread
	for {
		// enabled threads in canonical order
		var en []*thread
		unfinished := 0
		for _, t := range s.threads {
			if t.done {
				continue
			}
			unfinished++
			if t.can == nil || t.can() {
				en = append(en, t)
			}
		}
		if unfinished == 0 {
			break
		}
		if len(en) == 0 {
			s.x.Deadlock = true
			break
		}
		preempt := false
		if cur != nil && !cur.done {
			for i, t := range en {
				if t == cur {
					copy(en[1:i+1], en[0:i])
					en[0] = cur
					preempt = true
					break
				}
			}
		}
		if s.usekeys && len(s.x.points) >= len(prefix) {
			k := s.sharedKey()
			if _, seen := visited[k]; seen {
				s.x.Pruned = true
				s.x.PrunedAt = len(s.x.points)
				break
			}
			visited[k] = struct{}{}
		}
		c := 0
		if len(en) > 1 {
			var lb strings.Builder
			for _, t := range en {
				fmt.Fprintf(&lb, "T%d:%s ", t.id, t.what)
			}
			c = s.decide(len(en), true, preempt, lb.String())
		}
		cur = en[c]
		s.cur = cur
		if s.usekeys {
			d := sha256.Sum256([]byte(fmt.Sprintf("%x|%s", cur.chain, p.Shared(s.inst))))
			cur.chain = d
		}
		cur.segs++
		cur.started = true
		cur.wake <- true
		<-s.ev
	}

	// unwind whatever is left (deadlock or pruned)
	s.aborting = true
	for _, t := range s.threads {
		if !t.done {
			if t.can != nil {
				t.blockedAt = strings.SplitN(t.what, "(", 2)[0]
			}
			s.cur = t
			t.wake <- false
			<-s.ev
		}
	}
	s.running = false

	switch {
	case s.x.Pruned:
	case s.x.Deadlock:
		var b strings.Builder
		b.WriteString("DEADLOCK")
		for _, t := range s.threads {
			if t.blockedAt != "" {
				fmt.Fprintf(&b, " T%d@%s", t.id, t.blockedAt)
			}
		}
		s.x.Outcome = b.String()
	default:
		var b strings.Builder
		for _, t := range s.threads {
			if t.panicv != nil {
				fmt.Fprintf(&b, "PANIC T%d: %v\n", t.id, t.panicv)
			}
		}
		b.WriteString(p.Finish(s.inst))
		s.x.Outcome = b.String()
	}
	return s.x
}

// Replay runs one recorded execution (no pruning).
func Replay(p *Program, choices []int) *Exec { return run(p, choices, nil) }

// Stats summarises an exploration.
type Stats struct {
	Bound      int // -1 = unbounded
	Executions int
	Complete   int // executions that ran to the end (not pruned)
	Pruned     int
	States     int
	Points     int // scheduling/data decisions taken (transitions)
	MaxPoints  int
	Preempted  int              // complete executions with >=1 preemption
	Outcomes   map[string][]int // outcome -> first (fewest-deviation) schedule
	OutcomeN   map[string]int
	Aborted    bool // budget hit
}

// Explore enumerates every execution of p with at most bound preemptions
// (bound<0: unbounded, with visited-state pruning when p.Shared is set).
// onExec, if set, sees each complete execution; returning false stops.
func Explore(p *Program, bound int, maxExec int, onExec func(*Exec) bool) *Stats {
	st := &Stats{Bound: bound, Outcomes: map[string][]int{}, OutcomeN: map[string]int{}}
	var visited map[string]struct{}
	if bound < 0 && p.Shared != nil {
		visited = map[string]struct{}{}
	}
	stop := false
	var rec func(prefix []int)
	rec = func(prefix []int) {
		if stop {
			return
		}
		if maxExec > 0 && st.Executions >= maxExec {
			st.Aborted = true
			stop = true
			return
		}
		x := run(p, prefix, visited)
		st.Executions++
		st.Points += len(x.points) - len(prefix)
		if len(x.points) > st.MaxPoints {
			st.MaxPoints = len(x.points)
		}
		if x.Pruned {
			st.Pruned++
		} else {
			st.Complete++
			if x.Preempts > 0 {
				st.Preempted++
			}
			if _, ok := st.Outcomes[x.Outcome]; !ok {
				st.Outcomes[x.Outcome] = append([]int{}, x.Choices...)
			}
			st.OutcomeN[x.Outcome]++
			if onExec != nil && !onExec(x) {
				stop = true
				return
			}
		}
		// preemptions used before point i
		used := 0
		for i := 0; i < len(x.points); i++ {
			pt := x.points[i]
			if i >= len(prefix) {
				for alt := 1; alt < pt.n; alt++ {
					cost := used
					if pt.thread && pt.preempt {
						cost++
					}
					if bound >= 0 && cost > bound {
						continue
					}
					np := make([]int, i+1)
					copy(np, x.Choices[:i])
					np[i] = alt
					rec(np)
					if stop {
						return
					}
				}
			}
			if pt.thread && pt.preempt && pt.choice > 0 {
				used++
			}
		}
	}
	rec(nil)
	if visited != nil {
		st.States = len(visited)
	}
	return st
}
