package pauditd
