package pauditd

import (
	"context"
	"fmt"
	"syscall"
	"testing"
	"testing/synctest"
	"time"

	"github.com/metal-toolbox/auditevent"
	"github.com/prometheus/client_golang/prometheus"

	"github.com/metal-toolbox/audito-maldito/ingesters/auditlog"
	"github.com/metal-toolbox/audito-maldito/ingesters/namedpipe"
	"github.com/metal-toolbox/audito-maldito/internal/common"
	"github.com/metal-toolbox/audito-maldito/internal/health"
	"github.com/metal-toolbox/audito-maldito/internal/metrics"
	"github.com/metal-toolbox/audito-maldito/internal/verif/auditgen"
	"github.com/metal-toolbox/audito-maldito/internal/verif/mc"
	"github.com/metal-toolbox/audito-maldito/processors/auditd"
	"github.com/metal-toolbox/audito-maldito/processors/sshd"
)

// C13, deterministic half: cancellation injected in each blocking state of the
// workers that can be held in a bubble. "Never returns" is observed as
// "durably blocked after cancel(); Wait()".
func runC13(t *testing.T, run *mc.Run) int {
	n, blocking := 0, 0
	var samples []any
	cell := func(name string, isBlocking bool, f func() string) {
		n++
		if isBlocking {
			blocking++
		}
		var msg string
		bubble(t, func() { msg = f() })
		if len(samples) < 6 {
			samples = append(samples, name)
		}
		if msg != "" {
			run.Violation("C13:"+name, map[string]any{"cell": name}, name+": "+msg)
		}
	}
	// --- audit pipe ingester handing a record downstream
	for _, capacity := range []int{0, 1, 3} {
		for _, fill := range []string{"empty", "full"} {
			if capacity == 0 && fill == "empty" {
				continue // capacity 0 is always "full"
			}
			capacity, fill := capacity, fill
			cell(fmt.Sprintf("audit-ingester-handoff/cap=%d/%s/consumer-stopped", capacity, fill), fill == "full", func() string {
				ch := make(chan string, capacity)
				if fill == "full" {
					for i := 0; i < capacity; i++ {
						ch <- fmt.Sprintf("old-%d", i)
					}
				}
				ing := auditlog.NewAuditLogIngester("", ch, namedpipe.NamedPipeIngester{})
				ctx, cancel := context.WithCancel(context.Background())
				defer cancel()
				returned := false
				var ret error
				go func() {
					ret = ing.Process(ctx, "the-line\n")
					returned = true
				}()
				synctest.Wait()
				if fill == "empty" {
					if !returned {
						return "blocked although the buffer has room"
					}
					return ""
				}
				if returned {
					return "returned although the buffer is full and nobody consumes"
				}
				cancel()
				synctest.Wait()
				if !returned {
					// unblock it so the bubble can end
					<-ch
					synctest.Wait()
					return "still blocked handing the record downstream after its context was cancelled (consumer stopped, buffer full): the worker never returns"
				}
				_ = ret
				// nothing delivered after returning
				for len(ch) > 0 {
					if l := <-ch; l == "the-line\n" {
						return "the record was delivered after the worker returned on cancellation"
					}
				}
				return ""
			})
		}
	}
	// --- sshd processor blocked handing a login to an unready correlator (every accepted-login variant)
	for _, v := range []struct{ name, line string }{
		{"password", "Accepted password for a from 1.2.3.4 port 22 ssh2"},
		{"publickey", "Accepted publickey for a from 1.2.3.4 port 22 ssh2: ED25519 SHA256:abc"},
		{"publickey-trailing", "Accepted publickey for a from 1.2.3.4 port 22 ssh2: ED25519 SHA256:abc trailing words"},
		{"certificate", "Accepted publickey for a from 1.2.3.4 port 22 ssh2: ED25519-CERT SHA256:abc ID k (serial 1) CA ED25519 SHA256:def"},
	} {
		v := v
		cell("sshd-processor-handoff/"+v.name+"/correlator-unready", true, func() string {
			logins := make(chan common.RemoteUserLogin)
			w := &wrec{}
			mp := metrics.NewPrometheusMetricsProviderForRegisterer(prometheus.NewRegistry())
			proc := sshd.NewSshdProcessor(context.Background(), logins, "n", "m", auditevent.NewDefaultAuditEventWriter(w), mp)
			ctx, cancel := context.WithCancel(context.Background())
			defer cancel()
			returned := false
			go func() {
				_ = proc.ProcessSshdLogEntry(ctx, sshd.SshdLogEntry{PID: "77", Message: v.line})
				returned = true
			}()
			synctest.Wait()
			if returned {
				return "returned although nobody received the login"
			}
			cancel()
			synctest.Wait()
			if !returned {
				<-logins
				synctest.Wait()
				return "still blocked on the hand-off after cancellation"
			}
			select {
			case <-logins:
				return "a login was delivered after the worker returned"
			default:
			}
			return ""
		})
	}
	// --- the audit processor: idle, and with input offered after cancellation
	for _, state := range []string{"idle", "session-open", "events-held", "login-waiting"} {
		state := state
		cell("audit-processor/"+state, true, func() string {
			r := startRead(0)
			switch state {
			case "session-open":
				r.offerLogin(mkLogin(bindPID, "1"))
				r.offerLine(bindLines("7") + "\n")
			case "events-held":
				r.offerLine(bindLines("7") + "\n")
				r.offerLine(auditgen.Simple("USER_START", 1700000031, 4001, "7", "4242", "success").Recs[0].Line + "\n")
			case "login-waiting":
				r.offerLogin(mkLogin(bindPID, "1"))
			}
			if r.returned {
				return fmt.Sprintf("returned before cancellation: %v", r.ret)
			}
			before := len(r.w.writes)
			r.cancel()
			synctest.Wait()
			if !r.returned {
				return "the audit processor is still running after its context was cancelled"
			}
			// offer more input: nothing may be consumed or emitted
			if r.offerLogin(mkLogin(bindPID, "2")) {
				return "a login was consumed after the processor returned"
			}
			if r.offerLine(auditgen.Simple("USER_END", 1700000032, 4002, "7", "4242", "success").Recs[0].Line + "\n") {
				return "an audit line was consumed after the processor returned"
			}
			vsleep(200e9)
			after := len(r.w.writes)
			// events that were held in the reassembler may be flushed by Read's deferred Close
			// while it returns; anything later is a delivery after returning
			if state != "events-held" && after != before {
				return fmt.Sprintf("%d events were emitted after the processor returned", after-before)
			}
			return ""
		})
	}
	// --- the audit processor behind a backlog: the line buffer (the daemon's holds 10 000 lines) still has thousands
	// of records of a correlated session when the cancellation comes, the processor being in the middle of writing
	// an event (held there by the output). Once the write is let go the parser is back at its select with both the
	// cancellation and more lines ready: how many more lines it takes is a matter of coin flips (each with
	// probability 1/2), not of the size of the backlog - more than 64 is no accident (2^-64).
	for _, backlog := range []int{200, 6000} {
		backlog := backlog
		cell(fmt.Sprintf("audit-processor/writing-an-event-with-%d-lines-buffered", backlog), true, func() string {
			r := &rig{audits: make(chan string, 10000), logins: make(chan common.RemoteUserLogin), w: &wrec{}}
			r.ew = auditevent.NewDefaultAuditEventWriter(r.w)
			r.ctx, r.cancel = context.WithCancel(context.Background())
			a := auditd.Auditd{Audits: r.audits, Logins: r.logins, EventW: r.ew, Health: health.NewSingleReadinessHealth(auditd.AuditdProcessorComponentName)}
			go func() {
				r.ret = a.Read(r.ctx)
				r.returned = true
			}()
			synctest.Wait()
			r.offerLogin(mkLogin(bindPID, "1"))
			r.audits <- bindLines("7") + "\n"
			r.audits <- auditgen.Simple("USER_START", 1700000031, 4001, "7", "4242", "success").Recs[0].Line + "\n"
			synctest.Wait()
			gate := make(chan error)
			r.w.gate = gate
			defer func() { // whatever happens below, nobody stays parked at the gate when the bubble ends
				select {
				case gate <- nil:
				default:
				}
				synctest.Wait()
			}()
			for i := 0; i < backlog; i++ {
				r.audits <- auditgen.Simple("USER_ACCT", 1700000040+int64(i), 5000+i, "7", "4242", "success").Recs[0].Line + "\n"
			}
			synctest.Wait() // the parser is inside the write of an event; the rest waits in the buffer
			left := len(r.audits)
			if left < backlog/2 {
				// (an implementation that moves lines on to a stage of its own before parsing them: the state this
				// cell is about - a backlog in the line buffer - was not reached; nothing is judged)
				run.Note("audit-processor backlog cell: only %d of %d lines were left in the buffer while the first write was held; not judged", left, backlog)
				return ""
			}
			r.cancel()
			synctest.Wait()
			released := false
			if !r.returned {
				// (a processor that waits for the event write in progress before it returns: the write is let go)
				select {
				case gate <- nil:
					released = true
				default:
				}
				vsleep(1e9)
				if !r.returned {
					return "the audit processor is still running after its context was cancelled (the event write it was in has completed)"
				}
			}
			atReturn, leftAtReturn := len(r.w.writes), len(r.audits)
			if !released {
				select {
				case gate <- nil:
				default:
				}
				leftAtReturn = left
			}
			vsleep(10e9)
			taken, written := leftAtReturn-len(r.audits), len(r.w.writes)-atReturn
			if taken > 64 || written > 64 {
				return fmt.Sprintf("after the processor had returned, %d more lines were taken from the buffer and %d events written (the buffer held %d lines)", taken, written, left)
			}
			return ""
		})
	}
	// --- the audit processor holding hundreds of unfinished events of a correlated session while the output has
	// started to fail (with an error that also reads as EAGAIN / EINTR / a plain one): on its way out it flushes the
	// reassembler; however the flush fares, the processor is back within the bound (5 s of virtual time)
	for _, kind := range []error{errInjected, dressedErr{syscall.EAGAIN}, dressedErr{syscall.EINTR}} {
		kind := kind
		cell(fmt.Sprintf("audit-processor/300-unfinished-events-held-output-failing-with-%v", kind), true, func() string {
			r := startRead(0)
			r.offerLogin(mkLogin(bindPID, "1"))
			r.offerLine(bindLines("7") + "\n")
			r.offerLine(auditgen.Simple("USER_START", 1700000031, 4001, "7", "4242", "success").Recs[0].Line + "\n")
			for i := 0; i < 300; i++ {
				g := auditgen.Syscall(1700000040+int64(i), 5000+i, "7", "4242", "yes", []string{"ls"}, 1, false)
				for _, rec := range g.Recs[:2] { // SYSCALL and EXECVE only: the group stays open
					r.offerLine(rec.Line + "\n")
				}
			}
			if r.returned {
				return fmt.Sprintf("returned before cancellation: %v", r.ret)
			}
			old := writeErr
			writeErr = kind
			defer func() { writeErr = old }()
			r.w.failAt = r.w.n + 1 // every write from now on fails
			r.cancel()
			synctest.Wait()
			vsleep(5 * time.Second)
			if !r.returned {
				return "the audit processor is still running 5 s after its context was cancelled (300 unfinished events were held, the output fails)"
			}
			return ""
		})
	}
	cov := mc.Coverage{Level: "fault_enumeration", Evaluations: n, Distinct: blocking, Exhaustive: true, Samples: samples,
		Rule:  "cancellation injected in each blocking state of each worker that can run in a synctest bubble: AuditLogIngester.Process with downstream capacity {0,1,3} empty/full and the consumer stopped; ProcessSshdLogEntry blocked on the login hand-off; Auditd.Read idle / with an open session / holding events / with a waiting login / in the middle of an event write with 200 and 6 000 lines waiting in its line buffer (no more than 64 further lines may be taken once it has returned: the parser's select is a coin flip per line, not a drain) / holding 300 unfinished events of a correlated session while the output fails with a plain, an EAGAIN-like or an EINTR-like error (back within 5 s of virtual time); after return further input is offered and must be neither consumed nor emitted. 'never returns' = still durably blocked after cancel(); Wait(). distinct_nontrivial = cells in which the worker is blocked when cancellation arrives",
		Extra: map[string]any{"cells": n}}
	cov.Assumptions = []string{"testing/synctest durable-blocking semantics"}
	return run.Finish(cov)
}
