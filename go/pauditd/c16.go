package pauditd

import (
	"fmt"
	"testing"
	"time"

	"github.com/metal-toolbox/audito-maldito/internal/verif/auditgen"
	"github.com/metal-toolbox/audito-maldito/internal/verif/mc"
)

// C16(b): the wiring of the one-minute cleanup in the running processor,
// decided under the virtual clock.
var busySeq int

func runC16b(t *testing.T, run *mc.Run) int {
	phases := []time.Duration{1 * time.Second, 30 * time.Second, 59 * time.Second}
	gaps := []time.Duration{0, time.Second, 59 * time.Second, 121 * time.Second, 180 * time.Second, 600 * time.Second}
	if run.Thorough() {
		phases = append(phases, 0, 15*time.Second, 45*time.Second, 60*time.Second, 61*time.Second, 119*time.Second)
		gaps = append(gaps, 30*time.Second, 58*time.Second, 122*time.Second, 150*time.Second, 3600*time.Second)
	}
	n, dropped := 0, 0
	var samples []any
	for _, first := range []string{"login", "session", "busy-session", "login+other-logins", "session+other-logins"} {
		for _, ph := range phases {
			for _, gap := range gaps {
				n++
				var msg string
				var nout int
				extra := 0
				bubble(t, func() {
					r := startRead(0)
					defer r.stop()
					vsleep(ph)
					lg := mkLogin(bindPID, "1")
					sessLines := []string{
						bindLines("7"),
						auditgen.Simple("USER_START", 1700000021, 3001, "7", "4242", "success").Recs[0].Line,
						auditgen.Simple("USER_ACCT", 1700000022, 3002, "7", "4242", "success").Recs[0].Line,
					}
					otherLogins := first == "login+other-logins" || first == "session+other-logins"
					loginFirst := first == "login" || first == "login+other-logins"
					if loginFirst {
						r.offerLogin(lg)
					} else {
						for _, l := range sessLines {
							r.offerLine(l + "\n")
						}
					}
					if first == "busy-session" {
						// the waiting session keeps producing an event every 20 s: traffic must not keep it alive
						for slept := time.Duration(0); slept < gap; {
							step := 20 * time.Second
							if gap-slept < step {
								step = gap - slept
							}
							vsleep(step)
							slept += step
							if slept < gap {
								busySeq++
								r.offerLine(auditgen.Simple("USER_ACCT", 1700000060+int64(busySeq%30), 3100+busySeq, "7", "4242", "success").Recs[0].Line + "\n")
								extra++
							}
						}
					} else if otherLogins {
						// unrelated logins keep arriving every 20 s (a busy host): traffic on the logins channel must
						// neither keep the pending half alive nor put the periodic cleanup off
						for slept := time.Duration(0); slept < gap; {
							step := 20 * time.Second
							if gap-slept < step {
								step = gap - slept
							}
							vsleep(step)
							slept += step
							if slept < gap {
								busySeq++
								r.offerLogin(mkLogin(5000+busySeq%20000, fmt.Sprint(100+busySeq%50)))
							}
						}
					} else {
						vsleep(gap)
					}
					lg2 := lg
					if loginFirst {
						for _, l := range sessLines {
							r.offerLine(l + "\n")
						}
					} else {
						lg2.Source.LoggedAt = time.Now()
						r.offerLogin(lg2)
					}
					// probe: one more event and the end of the session
					r.offerLine(auditgen.Simple("USER_END", 1700000023, 3003, "7", "4242", "success").Recs[0].Line + "\n")
					r.offerLine(auditgen.Simple("CRED_DISP", 1700000024, 3004, "7", "4242", "success").Recs[0].Line + "\n")
					vsleep(200 * time.Second) // anything "emitted late" would show up now
					evs, _ := r.w.events()
					nout = len(evs)
					if r.returned {
						msg = fmt.Sprintf("the processor stopped: %v", r.ret)
						return
					}
					switch {
					case gap < 60*time.Second && nout != 5+extra:
						msg = fmt.Sprintf("halves %v apart (first half %v after start): %d of the session's 5 events were emitted; within a minute they must be correlated", gap, ph, nout)
					case gap > 120*time.Second && nout != 0:
						msg = fmt.Sprintf("halves %v apart: %d events were emitted; more than two minutes apart nothing may be (held events are dropped, not emitted late)", gap, nout)
					}
				})
				if gap > 120*time.Second {
					dropped++
				}
				if msg != "" {
					run.Violation(fmt.Sprintf("C16:wiring:%s-first:gap%s", first, map[bool]string{true: "<60s", false: ">120s"}[gap < 60*time.Second]),
						map[string]any{"first": first, "phase_s": ph.Seconds(), "gap_s": gap.Seconds()}, msg)
				}
				if len(samples) < 4 {
					samples = append(samples, fmt.Sprintf("first=%s phase=%v gap=%v -> %d events", first, ph, gap, nout))
				}
			}
		}
	}
	// a login is delivered, and delivered again (or the pid is taken by a new connection) 40 s later; the LOGIN
	// record follows 30 s after that: it is within a minute of the login that is waiting, so they correlate -
	// nothing that was started for the first delivery (a timer, an age) may take the second one away
	for _, ph := range phases {
		for _, same := range []bool{true, false} {
			n++
			var msg string
			bubble(t, func() {
				r := startRead(0)
				defer r.stop()
				vsleep(ph)
				lg := mkLogin(bindPID, "1")
				r.offerLogin(lg)
				vsleep(40 * time.Second)
				lg2 := mkLogin(bindPID, "1")
				if !same {
					lg2 = mkLogin(bindPID, "2")
				}
				r.offerLogin(lg2)
				vsleep(30 * time.Second)
				for _, l := range []string{
					bindLines("7"),
					auditgen.Simple("USER_START", 1700000021, 3001, "7", "4242", "success").Recs[0].Line,
					auditgen.Simple("USER_ACCT", 1700000022, 3002, "7", "4242", "success").Recs[0].Line,
					auditgen.Simple("USER_END", 1700000023, 3003, "7", "4242", "success").Recs[0].Line,
					auditgen.Simple("CRED_DISP", 1700000024, 3004, "7", "4242", "success").Recs[0].Line,
				} {
					r.offerLine(l + "\n")
				}
				vsleep(200 * time.Second)
				evs, _ := r.w.events()
				if r.returned {
					msg = fmt.Sprintf("the processor stopped: %v", r.ret)
					return
				}
				if len(evs) != 5 {
					msg = fmt.Sprintf("login at %v, login for the same pid again 40 s later, LOGIN record 30 s after that: %d of the session's 5 events were emitted; the halves are within a minute of each other", ph, len(evs))
				} else if identity(&evs[0]) != identity(lg2.Source) {
					msg = "the session carries the identity of the first delivery, not of the login that was waiting"
				}
			})
			if msg != "" {
				run.Violation("C16:wiring:login-delivered-twice", map[string]any{"phase_s": ph.Seconds(), "identical": same}, msg)
			}
		}
	}
	// the loop itself stalls across a cleanup instant (the consumer of the events output stops reading while the
	// held events of ANOTHER session are being flushed), resumes, and the second half arrives before the next
	// cleanup instant but more than two minutes after the first: the pending half must be gone all the same
	for _, first := range []string{"login", "session"} {
		for _, stall := range []time.Duration{72 * time.Second, 200 * time.Second} {
			n++
			dropped++
			var msg string
			bubble(t, func() {
				r := startRead(0)
				defer r.stop()
				vsleep(50 * time.Second)
				lg := mkLogin(bindPID, "1")
				sessLines := []string{
					bindLines("7"),
					auditgen.Simple("USER_START", 1700000021, 3001, "7", "4242", "success").Recs[0].Line,
					auditgen.Simple("USER_ACCT", 1700000022, 3002, "7", "4242", "success").Recs[0].Line,
				}
				if first == "login" {
					r.offerLogin(lg)
				} else {
					for _, l := range sessLines {
						r.offerLine(l + "\n")
					}
				}
				t0 := time.Now()
				vsleep(5 * time.Second)
				// another session, held, whose login now arrives: its flush blocks in the output
				for i, typ := range []string{"LOGIN", "USER_START", "USER_ACCT"} {
					res := "success"
					if typ == "LOGIN" {
						res = "1"
					}
					r.offerLine(auditgen.Simple(typ, 1700000030+int64(i), 3050+i, "8", "4343", res).Recs[0].Line + "\n")
				}
				vsleep(3 * time.Second)
				gate := make(chan error)
				r.w.gate = gate
				go r.offerLogin(mkLogin(4343, "2"))
				vsleep(stall) // nobody reads the events output: the loop is stuck in its write, across >= 1 cleanup instant
				gate <- nil
				vsleep(time.Second)
				// the second half, 126 s (or more) after the first
				if rest := 126*time.Second - time.Since(t0); rest > 0 {
					vsleep(rest)
				}
				gap := time.Since(t0)
				if first == "login" {
					for _, l := range sessLines {
						r.offerLine(l + "\n")
					}
				} else {
					lg.Source.LoggedAt = time.Now()
					r.offerLogin(lg)
				}
				r.offerLine(auditgen.Simple("USER_END", 1700000023, 3003, "7", "4242", "success").Recs[0].Line + "\n")
				r.offerLine(auditgen.Simple("CRED_DISP", 1700000024, 3004, "7", "4242", "success").Recs[0].Line + "\n")
				vsleep(200 * time.Second)
				evs, _ := r.w.events()
				if r.returned {
					msg = fmt.Sprintf("the processor stopped: %v", r.ret)
					return
				}
				late := 0
				for _, e := range evs {
					if e.Metadata.AuditID == "7" {
						late++
					}
				}
				if late != 0 {
					msg = fmt.Sprintf("the processor loop was stalled for %v across a cleanup instant; halves %v apart: %d events of the session were emitted; more than two minutes apart nothing may be (held events are dropped, not emitted late)", stall, gap.Round(time.Second), late)
				}
			})
			if msg != "" {
				run.Violation(fmt.Sprintf("C16:wiring:%s-first:loop-stalled-across-a-cleanup-instant", first), map[string]any{"first": first, "stall_s": stall.Seconds()}, msg)
			}
		}
	}
	// another session's event is being written (slowly) at the very instant a cleanup is due: the cleanup has to
	// wait for the correlator, not skip its round
	for _, first := range []string{"login", "session"} {
		n++
		dropped++
		var msg string
		bubble(t, func() {
			r := startRead(0)
			defer r.stop()
			vsleep(50 * time.Second)
			lg := mkLogin(bindPID, "1")
			sessLines := []string{
				bindLines("7"),
				auditgen.Simple("USER_START", 1700000021, 3001, "7", "4242", "success").Recs[0].Line,
				auditgen.Simple("USER_ACCT", 1700000022, 3002, "7", "4242", "success").Recs[0].Line,
			}
			if first == "login" {
				r.offerLogin(lg)
			} else {
				for _, l := range sessLines {
					r.offerLine(l + "\n")
				}
			}
			t0 := time.Now()
			// a correlated session B, busy: one of its events is in the middle of being written from t=118 s to
			// t=122 s, i.e. across the cleanup due at t=120 s (when the pending half is 70 s old)
			r.offerLogin(mkLogin(4343, "2"))
			r.offerLine(auditgen.Simple("LOGIN", 1700000030, 3050, "8", "4343", "1").Recs[0].Line + "\n")
			vsleep(118*time.Second - time.Since(t0) - 50*time.Second)
			gate := make(chan error)
			r.w.gate = gate
			go r.offerLine(auditgen.Simple("USER_ACCT", 1700000031, 3051, "8", "4343", "success").Recs[0].Line + "\n")
			vsleep(4 * time.Second)
			gate <- nil
			vsleep(time.Second)
			if rest := 126*time.Second - time.Since(t0); rest > 0 {
				vsleep(rest)
			}
			gap := time.Since(t0)
			if first == "login" {
				for _, l := range sessLines {
					r.offerLine(l + "\n")
				}
			} else {
				lg.Source.LoggedAt = time.Now()
				r.offerLogin(lg)
			}
			r.offerLine(auditgen.Simple("USER_END", 1700000023, 3003, "7", "4242", "success").Recs[0].Line + "\n")
			vsleep(200 * time.Second)
			evs, _ := r.w.events()
			if r.returned {
				msg = fmt.Sprintf("the processor stopped: %v", r.ret)
				return
			}
			late := 0
			for _, e := range evs {
				if e.Metadata.AuditID == "7" {
					late++
				}
			}
			if late != 0 {
				msg = fmt.Sprintf("an event of another session was being written while the cleanup at t=120 s was due; halves %v apart: %d events of the session were emitted; more than two minutes apart nothing may be", gap.Round(time.Second), late)
			}
		})
		if msg != "" {
			run.Violation(fmt.Sprintf("C16:wiring:%s-first:event-write-in-progress-at-a-cleanup-instant", first), map[string]any{"first": first}, msg)
		}
	}
	// the LOGIN record arrives right behind an unfinished record group of an unrelated process (the reassembler
	// releases events in serial order: it keeps the LOGIN record until the group in front has timed out), then the
	// stream falls silent; the login follows 5 s (58 s) later, and only minutes afterwards does the stream go on:
	// the halves were 5 s apart as the correlator saw them - they are correlated
	for _, gap := range []time.Duration{5 * time.Second, 58 * time.Second} {
		n++
		var msg string
		bubble(t, func() {
			r := startRead(0)
			defer r.stop()
			vsleep(7 * time.Second)
			open := auditgen.Syscall(1700000010, 2990, "4294967295", "900", "yes", []string{"x"}, 1, false)
			for _, rec := range open.Recs[:2] {
				r.offerLine(rec.Line + "\n")
			}
			r.offerLine(auditgen.Simple("LOGIN", 1700000011, 2991, "7", "4242", "1").Recs[0].Line + "\n")
			vsleep(gap)
			r.offerLogin(mkLogin(bindPID, "1"))
			vsleep(300 * time.Second) // silence
			r.offerLine(auditgen.Simple("USER_START", 1700000021, 3001, "7", "4242", "success").Recs[0].Line + "\n")
			r.offerLine(auditgen.Simple("USER_ACCT", 1700000022, 3002, "7", "4242", "success").Recs[0].Line + "\n")
			vsleep(30 * time.Second)
			evs, _ := r.w.events()
			if r.returned {
				msg = fmt.Sprintf("the processor stopped: %v", r.ret)
				return
			}
			c := 0
			for _, e := range evs {
				if e.Metadata.AuditID == "7" {
					c++
				}
			}
			if c != 3 {
				msg = fmt.Sprintf("LOGIN record (behind an unfinished group of another process) and login %v apart, then 300 s of silence, then two more records of the session: %d events of the session emitted, want 3", gap, c)
			}
		})
		if msg != "" {
			run.Violation("C16:wiring:login-record-behind-an-unfinished-group", map[string]any{"gap_s": gap.Seconds()}, msg)
		}
	}
	cov := mc.Coverage{Level: "model_checking", States: n, Transitions: n * 8, Traces: n, Evaluations: n, Distinct: dropped, Exhaustive: true, Samples: samples,
		Rule:  "the real Auditd.Read under testing/synctest's virtual clock: first half in {login, LOGIN record + 2 events, the same session producing a further event every 20 s, login / session with unrelated logins arriving every 20 s meanwhile} x phase of its arrival within the cleanup period x gap to the second half, then two probe events; gap < 60 s must correlate (5 events), gap > 120 s must emit nothing ever; 60..120 s unjudged; plus cells in which a login is delivered twice (identical, or a new login for the same pid) 40 s apart and the LOGIN record follows 30 s later (must correlate, with the second login's identity); plus 4 cells in which the loop itself is stalled (its write to the events output blocks while another session is flushed) for 72 s / 200 s across a cleanup instant and the second half arrives >= 126 s after the first; plus 2 cells in which another session's event is in the middle of its write (4 s) when a cleanup is due; plus 2 cells in which the LOGIN record arrives behind an unfinished record group of another process, the stream falls silent for 300 s and the login comes 5 s / 58 s after the record (must correlate). distinct_nontrivial = cells in which the pending half must have been discarded",
		Extra: map[string]any{"phases_s": len(phases), "gaps": len(gaps)}}
	cov.Assumptions = []string{"virtual clock of testing/synctest"}
	return run.Finish(cov)
}
