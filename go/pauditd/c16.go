package pauditd

import (
	"fmt"
	"testing"
	"time"

	"github.com/metal-toolbox/audito-maldito/internal/verif/auditgen"
	"github.com/metal-toolbox/audito-maldito/internal/verif/mc"
)

// C16(b): the wiring of the one-minute cleanup in the running processor,
// decided under the virtual clock.
var busySeq int

func runC16b(t *testing.T, run *mc.Run) int {
	phases := []time.Duration{1 * time.Second, 30 * time.Second, 59 * time.Second}
	gaps := []time.Duration{0, time.Second, 59 * time.Second, 121 * time.Second, 180 * time.Second, 600 * time.Second}
	if run.Thorough() {
		phases = append(phases, 0, 15*time.Second, 45*time.Second, 60*time.Second, 61*time.Second, 119*time.Second)
		gaps = append(gaps, 30*time.Second, 58*time.Second, 122*time.Second, 150*time.Second, 3600*time.Second)
	}
	n, dropped := 0, 0
	var samples []any
	for _, first := range []string{"login", "session", "busy-session", "login+other-logins", "session+other-logins"} {
		for _, ph := range phases {
			for _, gap := range gaps {
				n++
				var msg string
				var nout int
				extra := 0
				bubble(t, func() {
					r := startRead(0)
					defer r.stop()
					vsleep(ph)
					lg := mkLogin(bindPID, "1")
					sessLines := []string{
						bindLines("7"),
						auditgen.Simple("USER_START", 1700000021, 3001, "7", "4242", "success").Recs[0].Line,
						auditgen.Simple("USER_ACCT", 1700000022, 3002, "7", "4242", "success").Recs[0].Line,
					}
					otherLogins := first == "login+other-logins" || first == "session+other-logins"
					loginFirst := first == "login" || first == "login+other-logins"
					if loginFirst {
						r.offerLogin(lg)
					} else {
						for _, l := range sessLines {
							r.offerLine(l + "\n")
						}
					}
					if first == "busy-session" {
						// the waiting session keeps producing an event every 20 s: traffic must not keep it alive
						for slept := time.Duration(0); slept < gap; {
							step := 20 * time.Second
							if gap-slept < step {
								step = gap - slept
							}
							vsleep(step)
							slept += step
							if slept < gap {
								busySeq++
								r.offerLine(auditgen.Simple("USER_ACCT", 1700000060+int64(busySeq%30), 3100+busySeq, "7", "4242", "success").Recs[0].Line + "\n")
								extra++
							}
						}
					} else if otherLogins {
						// unrelated logins keep arriving every 20 s (a busy host): traffic on the logins channel must
						// neither keep the pending half alive nor put the periodic cleanup off
						for slept := time.Duration(0); slept < gap; {
							step := 20 * time.Second
							if gap-slept < step {
								step = gap - slept
							}
							vsleep(step)
							slept += step
							if slept < gap {
								busySeq++
								r.offerLogin(mkLogin(5000+busySeq%20000, fmt.Sprint(100+busySeq%50)))
							}
						}
					} else {
						vsleep(gap)
					}
					lg2 := lg
					if loginFirst {
						for _, l := range sessLines {
							r.offerLine(l + "\n")
						}
					} else {
						lg2.Source.LoggedAt = time.Now()
						r.offerLogin(lg2)
					}
					// probe: one more event and the end of the session
					r.offerLine(auditgen.Simple("USER_END", 1700000023, 3003, "7", "4242", "success").Recs[0].Line + "\n")
					r.offerLine(auditgen.Simple("CRED_DISP", 1700000024, 3004, "7", "4242", "success").Recs[0].Line + "\n")
					vsleep(200 * time.Second) // anything "emitted late" would show up now
					evs, _ := r.w.events()
					nout = len(evs)
					if r.returned {
						msg = fmt.Sprintf("the processor stopped: %v", r.ret)
						return
					}
					switch {
					case gap < 60*time.Second && nout != 5+extra:
						msg = fmt.Sprintf("halves %v apart (first half %v after start): %d of the session's 5 events were emitted; within a minute they must be correlated", gap, ph, nout)
					case gap > 120*time.Second && nout != 0:
						msg = fmt.Sprintf("halves %v apart: %d events were emitted; more than two minutes apart nothing may be (held events are dropped, not emitted late)", gap, nout)
					}
				})
				if gap > 120*time.Second {
					dropped++
				}
				if msg != "" {
					run.Violation(fmt.Sprintf("C16:wiring:%s-first:gap%s", first, map[bool]string{true: "<60s", false: ">120s"}[gap < 60*time.Second]),
						map[string]any{"first": first, "phase_s": ph.Seconds(), "gap_s": gap.Seconds()}, msg)
				}
				if len(samples) < 4 {
					samples = append(samples, fmt.Sprintf("first=%s phase=%v gap=%v -> %d events", first, ph, gap, nout))
				}
			}
		}
	}
	cov := mc.Coverage{Level: "model_checking", States: n, Transitions: n * 8, Traces: n, Evaluations: n, Distinct: dropped, Exhaustive: true, Samples: samples,
		Rule:  "the real Auditd.Read under testing/synctest's virtual clock: first half in {login, LOGIN record + 2 events, the same session producing a further event every 20 s, login / session with unrelated logins arriving every 20 s meanwhile} x phase of its arrival within the cleanup period x gap to the second half, then two probe events; gap < 60 s must correlate (5 events), gap > 120 s must emit nothing ever; 60..120 s unjudged. distinct_nontrivial = cells in which the pending half must have been discarded",
		Extra: map[string]any{"phases_s": len(phases), "gaps": len(gaps)}}
	cov.Assumptions = []string{"virtual clock of testing/synctest"}
	return run.Finish(cov)
}
