//go:debug asynctimerchan=0
package pauditd

import (
	"fmt"
	"os"
	"testing"

	"github.com/metal-toolbox/audito-maldito/internal/verif/mc"
)

var exitCode = 2

func TestMain(m *testing.M) {
	if os.Getenv("VERIF_PROP") == "" {
		os.Exit(m.Run())
	}
	m.Run()
	os.Exit(exitCode)
}

func TestCheck(t *testing.T) {
	prop := os.Getenv("VERIF_PROP")
	if prop == "" {
		t.Skip()
	}
	run := mc.Start(prop)
	switch prop {
	case "C02":
		exitCode = runC02wiring(t, run)
	case "C03":
		exitCode = runC03read(t, run)
	case "C04":
		exitCode = runC04parser(t, run)
	case "C09":
		exitCode = runC09wiring(t, run)
	case "C01":
		exitCode = runC01parser(t, run)
	case "C14":
		exitCode = runC14(t, run)
	case "C15":
		exitCode = runC15(t, run)
	case "C16":
		exitCode = runC16b(t, run)
	case "C13":
		exitCode = runC13(t, run)
	case "C10":
		exitCode = runC10b(t, run)
	default:
		fmt.Println("unknown property", prop)
	}
}
