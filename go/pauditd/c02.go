package pauditd

import (
	"fmt"
	"testing"
	"time"

	"github.com/metal-toolbox/auditevent"

	"github.com/metal-toolbox/audito-maldito/internal/verif/auditgen"
	"github.com/metal-toolbox/audito-maldito/internal/verif/mc"
)

// C02 through the real Auditd.Read under the virtual clock: "every audit event of that session from the LOGIN
// record up to and including its credential-disposal record" has no time limit once both halves have met. A
// correlated session that says nothing for a day, a week, months (a shell left open in a terminal multiplexer)
// while the Read loop keeps running its periodic cleanup, then continues and ends: all of it is emitted.
func runC02wiring(t *testing.T, run *mc.Run) int {
	idles := []time.Duration{25 * time.Hour, 8 * 24 * time.Hour}
	if run.Thorough() {
		idles = append(idles, 3*time.Hour, 32*24*time.Hour, 100*24*time.Hour)
	}
	n := 0
	var samples []any
	for _, first := range []string{"login", "session"} {
		for _, idle := range idles {
			n++
			var msg string
			bubble(t, func() {
				r := startRead(0)
				defer r.stop()
				vsleep(7 * time.Second)
				lg := mkLogin(bindPID, "1")
				sessLines := []string{
					bindLines("7"),
					auditgen.Simple("USER_START", 1700000021, 3001, "7", "4242", "success").Recs[0].Line,
					auditgen.Simple("USER_ACCT", 1700000022, 3002, "7", "4242", "success").Recs[0].Line,
				}
				if first == "login" {
					r.offerLogin(lg)
				}
				for _, l := range sessLines {
					r.offerLine(l + "\n")
				}
				if first != "login" {
					vsleep(5 * time.Second)
					r.offerLogin(lg)
				}
				vsleep(10 * time.Second)
				before, _ := r.w.events()
				vsleep(idle) // the session is silent; the loop's cleanup runs all the while
				r.offerLine(auditgen.Simple("USER_CMD", 1700000023, 3003, "7", "4242", "success").Recs[0].Line + "\n")
				// (an action of the session that mentions the kernel's unset session: it signals a daemon)
				for _, rec := range auditgen.Aux("OBJ_PID", 1700000023, 3033, "7", "4242", "yes").Recs {
					r.offerLine(rec.Line + "\n")
				}
				r.offerLine(auditgen.Simple("USER_END", 1700000024, 3004, "7", "4242", "success").Recs[0].Line + "\n")
				r.offerLine(auditgen.Simple("CRED_DISP", 1700000025, 3005, "7", "4242", "success").Recs[0].Line + "\n")
				vsleep(30 * time.Second)
				evs, _ := r.w.events()
				if r.returned {
					msg = fmt.Sprintf("the processor stopped: %v", r.ret)
					return
				}
				count := func(es []auditevent.AuditEvent) (c int) {
					for _, e := range es {
						if e.Metadata.AuditID == "7" {
							c++
							if identity(&e) != identity(lg.Source) {
								msg = "an event of the session carries another identity than its login's"
							}
						}
					}
					return c
				}
				b, a := count(before), count(evs)
				if msg == "" && (b != 3 || a != 7) {
					msg = fmt.Sprintf("%d events of the session were emitted before it fell silent (want 3) and %d in all after it continued and ended %v later (want 7: every event up to and including the credential disposal)", b, a, idle)
				}
			})
			if len(samples) < 4 {
				samples = append(samples, fmt.Sprintf("%s first, silent for %v", first, idle))
			}
			if msg != "" {
				run.Violation("C02:wiring:idle-correlated-session:"+first+"-first", map[string]any{"first": first, "idle_h": idle.Hours()},
					fmt.Sprintf("through Auditd.Read under the virtual clock, %s first, session correlated, then silent for %v: %s", first, idle, msg))
			}
		}
	}
	cov := mc.Coverage{Level: "exploration", Evaluations: n, Distinct: n, Exhaustive: true, Samples: samples,
		Rule:  "the real Auditd.Read in a synctest bubble (virtual clock, its periodic cleanup running): a session correlated with its login (login first / LOGIN record first), silent for 25 h / 8 days (thorough: also 3 h, 32 days, 100 days), then four more events (one of them a kill(2) whose OBJ_PID record names the kernel's unset session) ending with the credential disposal; oracle: 3 events before the silence, 7 in all, each with the login's identity. distinct_nontrivial = cells",
		Extra: map[string]any{"cells": n}}
	return run.Finish(cov)
}
