package pauditd

import (
	"fmt"
	"os"
	"testing"
	"time"

	"github.com/metal-toolbox/audito-maldito/internal/verif/auditgen"
	"github.com/metal-toolbox/audito-maldito/internal/verif/mc"
)

// C04 at parser level: how a session id is WRITTEN in the log is part of the input. Records that name no session,
// the kernel's unset session (4294967295) or - in the LOGIN record format of kernels before 3.14 - carry
// "old ses= / new ses=" instead of "ses=", are delivered as text to the real Auditd.Read together with an SSH login
// whose pid equals the record's pid: nothing may be emitted for the unset session, whichever spelling it has.
func runC04parser(t *testing.T, run *mc.Run) int {
	hdr := func(typ string, sec int64, seq int) string {
		return fmt.Sprintf("type=%s msg=audit(%d.123:%d): ", typ, sec, seq)
	}
	type shape struct{ name, login, follow string }
	shapes := []shape{
		{"current format, ses=4294967295",
			hdr("LOGIN", 1700000100, 6001) + "pid=4242 uid=0 subj=system_u:system_r:sshd_t:s0 old-auid=4294967295 auid=1000 tty=(none) old-ses=4294967295 ses=4294967295 res=1",
			auditgen.Simple("USER_START", 1700000101, 6002, "4294967295", "4242", "success").Recs[0].Line},
		{"pre-3.14 format, new ses=4294967295",
			hdr("LOGIN", 1700000100, 6001) + "login pid=4242 uid=0 old auid=4294967295 new auid=1000 old ses=4294967295 new ses=4294967295",
			auditgen.Simple("USER_START", 1700000101, 6002, "4294967295", "4242", "success").Recs[0].Line},
		{"pre-3.14 format without any session field",
			hdr("LOGIN", 1700000100, 6001) + "login pid=4242 uid=0 old auid=4294967295 new auid=1000",
			hdr("USER_START", 1700000101, 6002) + "pid=4242 uid=0 auid=1000 msg='op=PAM:session_open acct=\"someone\" exe=\"/usr/sbin/sshd\" hostname=10.0.0.1 addr=10.0.0.1 terminal=ssh res=success'"},
		{"current format, ses=unset",
			hdr("LOGIN", 1700000100, 6001) + "pid=4242 uid=0 old-auid=4294967295 auid=1000 tty=(none) old-ses=4294967295 ses=unset res=1",
			auditgen.Simple("USER_START", 1700000101, 6002, "unset", "4242", "success").Recs[0].Line},
	}
	n := 0
	var samples []any
	for _, sh := range shapes {
		for _, loginFirst := range []bool{true, false} {
			n++
			var msg string
			bubble(t, func() {
				r := startRead(0)
				defer r.stop()
				lg := mkLogin(bindPID, "1")
				if loginFirst {
					r.offerLogin(lg)
				}
				for _, l := range []string{sh.login, sh.follow, auditgen.Simple("USER_ACCT", 1700000102, 6003, "77", "9", "success").Recs[0].Line} {
					if !r.offerLine(l + "\n") {
						break
					}
				}
				vsleep(3 * time.Second)
				if !loginFirst {
					r.offerLogin(lg)
					vsleep(time.Second)
				}
				evs, _ := r.w.events()
				if r.returned {
					// stopping with an error naming the record is C15's way out for a record it cannot parse; nothing leaked
					if len(evs) == 0 {
						return
					}
				}
				if len(evs) != 0 {
					msg = fmt.Sprintf("%d events were emitted (first: auditId %q, subjects %v) for records of the kernel's unset session", len(evs), evs[0].Metadata.AuditID, evs[0].Subjects)
				}
			})
			if len(samples) < 4 {
				samples = append(samples, sh.name)
			}
			if msg != "" {
				run.Violation("C04:parser:"+firstN(sh.name, 3), map[string]any{"shape": sh.name, "login_first": loginFirst},
					fmt.Sprintf("LOGIN record written as %q (login with the same pid arrives %s): %s", sh.login, map[bool]string{true: "first", false: "afterwards"}[loginFirst], msg))
			}
		}
	}
	// an event that fails once: the login of pid 4242 is known; its session's records, the LOGIN record of a cron
	// session that happens to get the same pid afterwards and that session's activity all leave the reassembler in
	// one go (an unfinished group in front of them kept them there); the k-th of them is stamped in year 33658, so
	// the JSON writer refuses exactly that event and goes on working for the others. Whatever the processor does
	// about the failure (it stops), nothing of the cron session is ever emitted.
	for k := 1; k <= 3; k++ {
		n++
		var msg string
		bubble(t, func() {
			r := startRead(0)
			defer r.stop()
			r.offerLogin(mkLogin(bindPID, "1"))
			open := auditgen.Syscall(1700000200, 7000, "4294967295", "900", "yes", []string{"x"}, 1, false)
			for _, rec := range open.Recs[:2] { // an unfinished group of an unrelated process
				r.offerLine(rec.Line + "\n")
			}
			sec := func(i int, s int64) int64 {
				if i == k {
					return 999999999999
				}
				return s
			}
			for _, l := range []string{
				auditgen.Simple("LOGIN", sec(1, 1700000201), 7001, "7", "4242", "1").Recs[0].Line,
				auditgen.Simple("USER_START", sec(2, 1700000201), 7002, "7", "4242", "success").Recs[0].Line,
				auditgen.Simple("CRED_DISP", sec(3, 1700000202), 7003, "7", "4242", "success").Recs[0].Line,
				auditgen.Simple("LOGIN", 1700000203, 7004, "8", "4242", "1").Recs[0].Line,
				auditgen.Simple("USER_START", 1700000204, 7005, "8", "4242", "success").Recs[0].Line,
				auditgen.Simple("USER_ACCT", 1700000205, 7006, "8", "4242", "success").Recs[0].Line,
			} {
				if !r.offerLine(l + "\n") {
					break
				}
			}
			vsleep(10 * time.Second)
			evs, _ := r.w.events()
			if os.Getenv("VERIF_DEBUG_C04") != "" {
				fmt.Printf("k=%d returned=%v ret=%v writes=%d\n", k, r.returned, r.ret, r.w.n)
				for _, e := range evs {
					fmt.Printf("   %s ses=%s %v\n", e.Type, e.Metadata.AuditID, e.Subjects)
				}
			}
			for _, e := range evs {
				if e.Metadata.AuditID == "8" {
					msg = fmt.Sprintf("an event of session 8 (a later session of pid 4242 for which no SSH login arrived) was emitted with subjects %v after event %d of the batch could not be encoded", e.Subjects, k)
				}
			}
		})
		if msg != "" {
			run.Violation("C04:parser:one-event-fails", map[string]any{"failing_event": k}, msg)
		}
	}
	cov := mc.Coverage{Level: "exploration", Evaluations: n, Distinct: n, Exhaustive: true, Samples: samples,
		Rule:  "parser level: 4 spellings of a LOGIN record for the kernel's unset / absent session (current format with ses=4294967295 and ses=unset, the pre-3.14 format with 'old ses= new ses=4294967295', the pre-3.14 format without a session) + a follow-up record, as log text through the real Auditd.Read, with an SSH login of the same pid arriving before or after; nothing may be emitted; plus 3 cells in which a login's session and a later login-less session of the same pid leave the reassembler in one batch while the k-th event of the batch cannot be encoded (stamped in year 33658; k = 1..3): nothing of the login-less session is emitted. distinct_nontrivial = cells",
		Extra: map[string]any{"spellings": len(shapes)}}
	return run.Finish(cov)
}
