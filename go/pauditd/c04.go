package pauditd

import (
	"fmt"
	"testing"
	"time"

	"github.com/metal-toolbox/audito-maldito/internal/verif/auditgen"
	"github.com/metal-toolbox/audito-maldito/internal/verif/mc"
)

// C04 at parser level: how a session id is WRITTEN in the log is part of the input. Records that name no session,
// the kernel's unset session (4294967295) or - in the LOGIN record format of kernels before 3.14 - carry
// "old ses= / new ses=" instead of "ses=", are delivered as text to the real Auditd.Read together with an SSH login
// whose pid equals the record's pid: nothing may be emitted for the unset session, whichever spelling it has.
func runC04parser(t *testing.T, run *mc.Run) int {
	hdr := func(typ string, sec int64, seq int) string {
		return fmt.Sprintf("type=%s msg=audit(%d.123:%d): ", typ, sec, seq)
	}
	type shape struct{ name, login, follow string }
	shapes := []shape{
		{"current format, ses=4294967295",
			hdr("LOGIN", 1700000100, 6001) + "pid=4242 uid=0 subj=system_u:system_r:sshd_t:s0 old-auid=4294967295 auid=1000 tty=(none) old-ses=4294967295 ses=4294967295 res=1",
			auditgen.Simple("USER_START", 1700000101, 6002, "4294967295", "4242", "success").Recs[0].Line},
		{"pre-3.14 format, new ses=4294967295",
			hdr("LOGIN", 1700000100, 6001) + "login pid=4242 uid=0 old auid=4294967295 new auid=1000 old ses=4294967295 new ses=4294967295",
			auditgen.Simple("USER_START", 1700000101, 6002, "4294967295", "4242", "success").Recs[0].Line},
		{"pre-3.14 format without any session field",
			hdr("LOGIN", 1700000100, 6001) + "login pid=4242 uid=0 old auid=4294967295 new auid=1000",
			hdr("USER_START", 1700000101, 6002) + "pid=4242 uid=0 auid=1000 msg='op=PAM:session_open acct=\"someone\" exe=\"/usr/sbin/sshd\" hostname=10.0.0.1 addr=10.0.0.1 terminal=ssh res=success'"},
		{"current format, ses=unset",
			hdr("LOGIN", 1700000100, 6001) + "pid=4242 uid=0 old-auid=4294967295 auid=1000 tty=(none) old-ses=4294967295 ses=unset res=1",
			auditgen.Simple("USER_START", 1700000101, 6002, "unset", "4242", "success").Recs[0].Line},
	}
	n := 0
	var samples []any
	for _, sh := range shapes {
		for _, loginFirst := range []bool{true, false} {
			n++
			var msg string
			bubble(t, func() {
				r := startRead(0)
				defer r.stop()
				lg := mkLogin(bindPID, "1")
				if loginFirst {
					r.offerLogin(lg)
				}
				for _, l := range []string{sh.login, sh.follow, auditgen.Simple("USER_ACCT", 1700000102, 6003, "77", "9", "success").Recs[0].Line} {
					if !r.offerLine(l + "\n") {
						break
					}
				}
				vsleep(3 * time.Second)
				if !loginFirst {
					r.offerLogin(lg)
					vsleep(time.Second)
				}
				evs, _ := r.w.events()
				if r.returned {
					// stopping with an error naming the record is C15's way out for a record it cannot parse; nothing leaked
					if len(evs) == 0 {
						return
					}
				}
				if len(evs) != 0 {
					msg = fmt.Sprintf("%d events were emitted (first: auditId %q, subjects %v) for records of the kernel's unset session", len(evs), evs[0].Metadata.AuditID, evs[0].Subjects)
				}
			})
			if len(samples) < 4 {
				samples = append(samples, sh.name)
			}
			if msg != "" {
				run.Violation("C04:parser:"+firstN(sh.name, 3), map[string]any{"shape": sh.name, "login_first": loginFirst},
					fmt.Sprintf("LOGIN record written as %q (login with the same pid arrives %s): %s", sh.login, map[bool]string{true: "first", false: "afterwards"}[loginFirst], msg))
			}
		}
	}
	cov := mc.Coverage{Level: "exploration", Evaluations: n, Distinct: n, Exhaustive: true, Samples: samples,
		Rule:  "parser level: 4 spellings of a LOGIN record for the kernel's unset / absent session (current format with ses=4294967295 and ses=unset, the pre-3.14 format with 'old ses= new ses=4294967295', the pre-3.14 format without a session) + a follow-up record, as log text through the real Auditd.Read, with an SSH login of the same pid arriving before or after; nothing may be emitted. distinct_nontrivial = cells",
		Extra: map[string]any{"spellings": len(shapes)}}
	return run.Finish(cov)
}
