package pauditd

import (
	"context"
	"fmt"
	"github.com/metal-toolbox/auditevent"
	"io"
	"strings"
	"testing"
	"testing/synctest"
	"time"

	"github.com/prometheus/client_golang/prometheus"

	"github.com/metal-toolbox/audito-maldito/internal/metrics"
	"github.com/metal-toolbox/audito-maldito/internal/verif/auditgen"
	"github.com/metal-toolbox/audito-maldito/internal/verif/mc"
	"github.com/metal-toolbox/audito-maldito/processors/sshd"
)

// C10(b): the sshd processor and the audit processor wired as in
// cmd/namedpipe.go (one writer, one unbuffered logins channel), every order of
// {sshd line, LOGIN record, event} for two sessions.
func runC10b(t *testing.T, run *mc.Run) int {
	type ev struct {
		sess int
		kind string // "sshd" | "LOGIN" | "EV"
	}
	scripts := [][]ev{
		{{0, "LOGIN"}, {0, "EV"}},
		{{0, "sshd"}},
		{{1, "LOGIN"}, {1, "EV"}},
		{{1, "sshd"}},
	}
	pids := []string{"6001", "6002"}
	sess := []string{"11", "12"}
	users := []string{"alice", "bob"}
	n, both := 0, 0
	var samples []any
	pos := make([]int, len(scripts))
	var cur []ev
	var rec func()
	rec = func() {
		done := true
		for i := range scripts {
			if pos[i] < len(scripts[i]) {
				done = false
				cur = append(cur, scripts[i][pos[i]])
				pos[i]++
				rec()
				pos[i]--
				cur = cur[:len(cur)-1]
			}
		}
		if !done {
			return
		}
		order := append([]ev{}, cur...)
		n++
		var msg string
		var names []string
		for _, e := range order {
			names = append(names, fmt.Sprintf("%s%d", e.kind, e.sess))
		}
		bubble(t, func() {
			r := startRead(0)
			defer r.stop()
			mp := metrics.NewPrometheusMetricsProviderForRegisterer(prometheus.NewRegistry())
			// the sshd side writes through a writer that first lets everybody else run to quiescence (a sleep on the
			// bubble's virtual clock returns only when all other goroutines are durably blocked): if the login was
			// handed over before this write, the audit side gets to write that session's actions first - every time
			proc := sshd.NewSshdProcessor(r.ctx, r.logins, "node", "mid", auditevent.NewDefaultAuditEventWriter(yieldingWriter{r.w}), mp)
			seq := 7000
			for _, e := range order {
				seq++
				switch e.kind {
				case "sshd":
					line := fmt.Sprintf("Accepted password for %s from 10.1.1.%d port 40%d ssh2", users[e.sess], e.sess+1, e.sess)
					done := false
					go func() {
						_ = proc.ProcessSshdLogEntry(r.ctx, sshd.SshdLogEntry{PID: pids[e.sess], Message: line})
						done = true
					}()
					synctest.Wait()
					if !done {
						vsleep(5 * time.Millisecond) // (it may be inside the yielding writer)
					}
					if !done {
						msg = "the sshd processor is blocked handing over the login although the audit processor is idle"
						return
					}
				case "LOGIN":
					r.offerLine(auditgen.Simple("LOGIN", 1700000040+int64(seq%10), seq, sess[e.sess], pids[e.sess], "1").Recs[0].Line + "\n")
				case "EV":
					r.offerLine(auditgen.Simple("USER_START", 1700000050+int64(seq%10), seq, sess[e.sess], pids[e.sess], "success").Recs[0].Line + "\n")
				}
			}
			vsleep(3e9)
			evs, bad := r.w.events()
			if len(bad) > 0 {
				msg = fmt.Sprintf("a write is not one complete JSON event line: %q", bad[0])
				return
			}
			seen := map[string]bool{}
			loginAt := map[string]int{}
			nAct := 0
			for i, e := range evs {
				raw := r.w.writes[i]
				if seen[raw] {
					msg = "an event was written twice: " + raw
					return
				}
				seen[raw] = true
				id := identity(&e)
				switch e.Type {
				case "UserLogin":
					loginAt[id] = i + 1
				case "UserAction":
					nAct++
					if loginAt[id] == 0 {
						msg = fmt.Sprintf("output line %d is a UserAction carrying an identity whose UserLogin has not been written before it", i+1)
						return
					}
				}
			}
			if len(loginAt) != 2 || nAct != 4 {
				msg = fmt.Sprintf("%d UserLogin and %d UserAction events in the output, want 2 and 4", len(loginAt), nAct)
			}
		})
		if strings.Contains(strings.Join(names, " "), "LOGIN0 LOGIN1") || strings.Contains(strings.Join(names, " "), "LOGIN1 LOGIN0") {
			both++
		}
		if len(samples) < 3 && n%50 == 7 {
			samples = append(samples, strings.Join(names, " "))
		}
		if msg != "" {
			run.Violation("C10:order:"+strings.Join(strings.Fields(msg)[:3], "_"), map[string]any{"order": names}, fmt.Sprintf("event order %v: %s", names, msg))
		}
	}
	rec()
	// a release of held events that fails part-way (one of them cannot be encoded), with further events of the
	// session still in the pipeline: what was written is not written again
	for _, loginIsLast := range []bool{false, true} {
		n++
		if dup, _ := unencodableCell(t, loginIsLast); dup != "" {
			run.Violation("C10:release-of-held-events-fails-part-way:written-twice", map[string]any{"login_last": loginIsLast},
				fmt.Sprintf("session with a record stamped in year 33658 among its held events (login last: %v), two more events of the session afterwards: %s", loginIsLast, dup))
		}
	}
	cov := mc.Coverage{Level: "model_checking", States: n, Transitions: n * 6, Traces: n, Evaluations: n, Distinct: both, Exhaustive: true, Samples: samples,
		Rule:  "the real sshd processor goroutine and the real Auditd.Read sharing one production JSON writer and one unbuffered logins channel (the wiring of cmd/namedpipe.go) in a synctest bubble; every order of {sshd login line, LOGIN record, event} for two sessions (LOGIN before its event); oracle on the writer: every Write is one whole JSON line, none twice, each UserLogin precedes every UserAction with its identity, nothing missing; plus 2 cells in which the release of held events fails part-way (an event the output cannot encode) and further events of the session follow: nothing is written twice. distinct_nontrivial = orders in which both sessions are open at once",
		Extra: map[string]any{"orders": n}}
	return run.Finish(cov)
}

var _ = context.Background

// yieldingWriter delays each write until every other goroutine of the bubble is durably blocked.
type yieldingWriter struct{ w io.Writer }

func (y yieldingWriter) Write(p []byte) (int, error) {
	time.Sleep(time.Millisecond)
	return y.w.Write(p)
}
