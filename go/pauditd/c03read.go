package pauditd

import (
	"context"
	"encoding/json"
	"fmt"
	"io"
	"sync"
	"testing"
	"time"

	"github.com/metal-toolbox/auditevent"
	"go.uber.org/zap"
	"go.uber.org/zap/zapcore"

	"github.com/metal-toolbox/audito-maldito/internal/common"
	"github.com/metal-toolbox/audito-maldito/internal/health"
	"github.com/metal-toolbox/audito-maldito/internal/verif/auditgen"
	"github.com/metal-toolbox/audito-maldito/internal/verif/mc"
	"github.com/metal-toolbox/audito-maldito/processors/auditd"
)

// C03 through the real Auditd.Read: the correlator the daemon runs is whatever Read wires together (which object
// the Read loop calls for logins and cleanup, which one the reassembler's goroutines call for events), so the
// atomicity of "login || LOGIN record" is also explored THERE, with the means that exist at that level: every
// debug log statement of the code under test is a preemption point. For each k the goroutine that delivers one
// half is stopped at its k-th log statement, the other half is delivered completely (as far as the code lets it),
// then the first is released - one preemption, at every log point, in both directions.

// logPoints pauses the k-th entry written after arm().
type logPoints struct {
	mu      sync.Mutex
	k, seen int
	armed   bool
	paused  chan struct{}
	release chan struct{}
	last    string
}

func (h *logPoints) arm(k int) {
	h.mu.Lock()
	h.k, h.seen, h.armed = k, 0, true
	h.paused, h.release = make(chan struct{}), make(chan struct{})
	h.mu.Unlock()
}

func (h *logPoints) hit(msg string) {
	h.mu.Lock()
	if !h.armed {
		h.mu.Unlock()
		return
	}
	h.seen++
	if h.seen != h.k {
		h.mu.Unlock()
		return
	}
	h.armed = false
	h.last = msg
	p, r := h.paused, h.release
	h.mu.Unlock()
	close(p)
	select {
	case <-r:
	case <-time.After(5 * time.Second): // never hold the code under test for ever
	}
}

type pointCore struct {
	zapcore.Core
	h *logPoints
}

func (c pointCore) With(f []zapcore.Field) zapcore.Core { return pointCore{c.Core.With(f), c.h} }
func (c pointCore) Check(e zapcore.Entry, ce *zapcore.CheckedEntry) *zapcore.CheckedEntry {
	if c.Enabled(e.Level) {
		return ce.AddCore(e, c)
	}
	return ce
}
func (c pointCore) Write(e zapcore.Entry, f []zapcore.Field) error {
	c.h.hit(e.Message)
	return c.Core.Write(e, f)
}

// lockedWriter is the events output of this check (several goroutines may write).
type lockedWriter struct {
	mu     sync.Mutex
	writes []string
}

func (w *lockedWriter) Write(p []byte) (int, error) {
	w.mu.Lock()
	w.writes = append(w.writes, string(p))
	w.mu.Unlock()
	return len(p), nil
}

func (w *lockedWriter) events() (out []auditevent.AuditEvent) {
	w.mu.Lock()
	defer w.mu.Unlock()
	for _, s := range w.writes {
		var e auditevent.AuditEvent
		if json.Unmarshal([]byte(s), &e) == nil {
			out = append(out, e)
		}
	}
	return out
}

func runC03read(t *testing.T, run *mc.Run) int {
	h := &logPoints{}
	enc := zapcore.NewJSONEncoder(zap.NewProductionEncoderConfig())
	core := pointCore{zapcore.NewCore(enc, zapcore.AddSync(io.Discard), zapcore.DebugLevel), h}
	auditd.SetLogger(zap.New(core).Sugar())
	defer auditd.SetLogger(mc.DebugLogger())
	lines := []string{
		bindLines("7"),
		auditgen.Simple("USER_START", 1700000021, 3001, "7", "4242", "success").Recs[0].Line,
		auditgen.Simple("USER_ACCT", 1700000022, 3002, "7", "4242", "success").Recs[0].Line, // flushes the one before
	}
	n, points := 0, 0
	var samples []any
	for _, side := range []string{"login-held-at-a-log-point", "record-held-at-a-log-point"} {
		for k := 1; k <= 40; k++ {
			n++
			w := &lockedWriter{}
			audits, logins := make(chan string), make(chan common.RemoteUserLogin)
			ctx, cancel := context.WithCancel(context.Background())
			a := auditd.Auditd{Audits: audits, Logins: logins, EventW: auditevent.NewDefaultAuditEventWriter(w), Health: health.NewSingleReadinessHealth(auditd.AuditdProcessorComponentName)}
			done := make(chan error, 1)
			go func() { done <- a.Read(ctx) }()
			time.Sleep(20 * time.Millisecond) // start-up log statements are over
			lg := mkLogin(bindPID, "1")
			var wg sync.WaitGroup
			deliverLogin := func() {
				wg.Add(1)
				go func() {
					defer wg.Done()
					select {
					case logins <- lg:
					case <-time.After(3 * time.Second):
					}
				}()
			}
			deliverLines := func() {
				wg.Add(1)
				go func() {
					defer wg.Done()
					for _, l := range lines {
						select {
						case audits <- l + "\n":
						case <-time.After(3 * time.Second):
							return
						}
					}
				}()
			}
			h.arm(k)
			if side == "login-held-at-a-log-point" {
				deliverLogin()
			} else {
				deliverLines()
			}
			reached := false
			select {
			case <-h.paused:
				reached = true
			case <-time.After(150 * time.Millisecond):
			}
			// the other half, while the first is held (it goes as far as the code under test lets it)
			if side == "login-held-at-a-log-point" {
				deliverLines()
			} else {
				deliverLogin()
			}
			time.Sleep(60 * time.Millisecond)
			at := h.last
			close(h.release)
			wg.Wait()
			// settle: everything delivered, the reassembler has handed over LOGIN and USER_START
			var evs []auditevent.AuditEvent
			for until := time.Now().Add(4 * time.Second); time.Now().Before(until); time.Sleep(10 * time.Millisecond) {
				if evs = w.events(); len(evs) >= 2 {
					break
				}
			}
			time.Sleep(30 * time.Millisecond)
			evs = w.events()
			cancel()
			select {
			case <-done:
			case <-time.After(5 * time.Second):
			}
			if reached {
				points++
			}
			msg := ""
			seen := map[string]int{}
			for _, e := range evs {
				if e.Metadata.AuditID == "7" {
					seen[fmt.Sprint(e.LoggedAt.Unix())]++
					if identity(&e) != identity(lg.Source) {
						msg = "an event of the session carries another identity than its login's"
					}
				}
			}
			for _, want := range []int64{1600000000, 1700000021} {
				if c := seen[fmt.Sprint(want)]; c != 1 && msg == "" {
					msg = fmt.Sprintf("the session's record with kernel time %d was emitted %d times, want once (login and LOGIN record both arrived: every sequential order correlates them)", want, c)
				}
			}
			if len(samples) < 6 && reached {
				samples = append(samples, fmt.Sprintf("%s #%d (%q): %d events", side, k, at, len(evs)))
			}
			if msg != "" {
				run.Violation("C03:read:"+side, map[string]any{"side": side, "log_point": k, "statement": at},
					fmt.Sprintf("through Auditd.Read, %s number %d (%q) while the other half is delivered: %s", side, k, at, msg))
			}
			if !reached {
				break // fewer than k log statements on this side: all its log points have been visited
			}
		}
	}
	cov := mc.Coverage{Level: "model_checking", States: points, Transitions: n, Traces: n, Evaluations: n, Distinct: points, Exhaustive: true, Samples: samples,
		Rule:  "the real Auditd.Read (real goroutines, real time): the goroutine delivering one half of a correlation (the login through the Read loop / the LOGIN record and a follow-up event through parser, reassembler and callback) is stopped at its k-th debug log statement for every k, the other half is delivered meanwhile, then the first is released; oracle: both records of the session are emitted exactly once with the login's identity, as in every sequential order. One preemption, at log-statement granularity, both directions. states = log points at which a goroutine was actually held",
		Extra: map[string]any{"log_points_visited": points}}
	cov.Assumptions = []string{"preemption points are the debug log statements of the code under test (lock-granularity interleavings of the tracker object itself are explored by the scheduler part of C03)", "real time: a held goroutine is released after 60 ms; the OS scheduler is otherwise not controlled"}
	return run.Finish(cov)
}
