package pauditd

import (
	"context"
	"encoding/json"
	"fmt"
	"io"
	"sync"
	"testing"
	"time"

	"github.com/metal-toolbox/auditevent"
	"go.uber.org/zap"
	"go.uber.org/zap/zapcore"

	"github.com/metal-toolbox/audito-maldito/internal/common"
	"github.com/metal-toolbox/audito-maldito/internal/health"
	"github.com/metal-toolbox/audito-maldito/internal/verif/auditgen"
	"github.com/metal-toolbox/audito-maldito/internal/verif/mc"
	"github.com/metal-toolbox/audito-maldito/processors/auditd"
)

// C03 through the real Auditd.Read: the correlator the daemon runs is whatever Read wires together (which object
// the Read loop calls for logins and cleanup, which one the reassembler's goroutines call for events), so the
// atomicity of "login || LOGIN record" is also explored THERE, with the means that exist at that level: every
// debug log statement of the code under test is a preemption point. For each k the goroutine that delivers one
// half is stopped at its k-th log statement, the other half is delivered completely (as far as the code lets it),
// then the first is released - one preemption, at every log point, in both directions.

// logPoints pauses the k-th entry written after arm().
type logPoints struct {
	mu      sync.Mutex
	k, seen int
	armed   bool
	paused  chan struct{}
	release chan struct{}
	last    string
}

func (h *logPoints) arm(k int) {
	h.mu.Lock()
	h.k, h.seen, h.armed = k, 0, true
	h.paused, h.release = make(chan struct{}), make(chan struct{})
	h.mu.Unlock()
}

func (h *logPoints) hit(msg string) {
	h.mu.Lock()
	if !h.armed {
		h.mu.Unlock()
		return
	}
	h.seen++
	if h.seen != h.k {
		h.mu.Unlock()
		return
	}
	h.armed = false
	h.last = msg
	p, r := h.paused, h.release
	h.mu.Unlock()
	close(p)
	select {
	case <-r:
	case <-time.After(5 * time.Second): // never hold the code under test for ever
	}
}

type pointCore struct {
	zapcore.Core
	h *logPoints
}

func (c pointCore) With(f []zapcore.Field) zapcore.Core { return pointCore{c.Core.With(f), c.h} }
func (c pointCore) Check(e zapcore.Entry, ce *zapcore.CheckedEntry) *zapcore.CheckedEntry {
	if c.Enabled(e.Level) {
		return ce.AddCore(e, c)
	}
	return ce
}
func (c pointCore) Write(e zapcore.Entry, f []zapcore.Field) error {
	c.h.hit(e.Message)
	return c.Core.Write(e, f)
}

// lockedWriter is the events output of this check (several goroutines may write).
type lockedWriter struct {
	mu     sync.Mutex
	writes []string
}

func (w *lockedWriter) Write(p []byte) (int, error) {
	w.mu.Lock()
	w.writes = append(w.writes, string(p))
	w.mu.Unlock()
	return len(p), nil
}

func (w *lockedWriter) events() (out []auditevent.AuditEvent) {
	w.mu.Lock()
	defer w.mu.Unlock()
	for _, s := range w.writes {
		var e auditevent.AuditEvent
		if json.Unmarshal([]byte(s), &e) == nil {
			out = append(out, e)
		}
	}
	return out
}

// c03scen is one pair of halves delivered against each other through Auditd.Read.
type c03scen struct {
	name     string
	preLogin *common.RemoteUserLogin // delivered (and settled) before the halves
	preLines []string
	preWant  int      // events on the output once the preparation has settled
	lines    []string // the record half (its goroutine is the parser / reassembler / callback chain)
	login    common.RemoteUserLogin
	post     []string // delivered after both halves, in order
	want     []c03want
	total    int // events on the output when everything has been handed over
}

type c03want struct {
	ses   string
	sec   int64
	ident string
}

func runC03read(t *testing.T, run *mc.Run) int {
	h := &logPoints{}
	enc := zapcore.NewJSONEncoder(zap.NewProductionEncoderConfig())
	core := pointCore{zapcore.NewCore(enc, zapcore.AddSync(io.Discard), zapcore.DebugLevel), h}
	auditd.SetLogger(zap.New(core).Sugar())
	defer auditd.SetLogger(mc.DebugLogger())
	line := func(typ string, sec int64, seq int, ses, pid string) string {
		res := "success"
		if typ == "LOGIN" {
			res = "1"
		}
		return auditgen.Simple(typ, sec, seq, ses, pid, res).Recs[0].Line
	}
	lgA, lgB := mkLogin(bindPID, "1"), mkLogin(4343, "2")
	scens := []c03scen{
		{name: "login || its LOGIN record",
			lines: []string{
				bindLines("7"),
				line("USER_START", 1700000021, 3001, "7", "4242"),
				line("USER_ACCT", 1700000022, 3002, "7", "4242"), // flushes the one before
			},
			login: lgA,
			want:  []c03want{{"7", 1600000000, identity(lgA.Source)}, {"7", 1700000021, identity(lgA.Source)}}, total: 2},
		// a correlated session ends while the login of another connection arrives: whatever the correlator does when
		// a session ends (release of state, bookkeeping, notifications) happens next to the Read loop's own call
		{name: "end of a correlated session || login of another pid",
			preLogin: &lgA,
			preLines: []string{
				bindLines("7"),
				line("USER_START", 1700000021, 3001, "7", "4242"),
				line("USER_ACCT", 1700000022, 3002, "7", "4242"),
			},
			preWant: 2,
			lines: []string{
				line("CRED_DISP", 1700000023, 3003, "7", "4242"),
				line("USER_ACCT", 1700000024, 3004, "99", "9999"), // (an untracked session's record: flushes the one before)
			},
			login: lgB,
			post: []string{
				line("LOGIN", 1700000030, 3050, "8", "4343"),
				line("USER_START", 1700000031, 3051, "8", "4343"),
				line("USER_ACCT", 1700000032, 3052, "8", "4343"),
			},
			want: []c03want{{"7", 1700000022, identity(lgA.Source)}, {"7", 1700000023, identity(lgA.Source)}, {"8", 1700000030, identity(lgB.Source)}, {"8", 1700000031, identity(lgB.Source)}}, total: 6},
	}
	n, points := 0, 0
	var samples []any
	for si, sc := range scens {
		for _, side := range []string{"login-held-at-a-log-point", "record-held-at-a-log-point"} {
			for k := 1; k <= 40; k++ {
				n++
				w := &lockedWriter{}
				audits, logins := make(chan string), make(chan common.RemoteUserLogin)
				ctx, cancel := context.WithCancel(context.Background())
				a := auditd.Auditd{Audits: audits, Logins: logins, EventW: auditevent.NewDefaultAuditEventWriter(w), Health: health.NewSingleReadinessHealth(auditd.AuditdProcessorComponentName)}
				done := make(chan error, 1)
				deadlock := make(chan string, 1)
				go func() {
					defer func() {
						if p := recover(); p != nil { // the sync shim's "lock not acquired within the timeout"
							deadlock <- fmt.Sprint(p)
							done <- fmt.Errorf("panic: %v", p)
						}
					}()
					done <- a.Read(ctx)
				}()
				time.Sleep(20 * time.Millisecond) // start-up log statements are over
				sendLines := func(ls []string) {
					for _, l := range ls {
						select {
						case audits <- l + "\n":
						case <-time.After(3 * time.Second):
							return
						}
					}
				}
				settle := func(atLeast int, limit time.Duration) []auditevent.AuditEvent {
					var evs []auditevent.AuditEvent
					for until := time.Now().Add(limit); time.Now().Before(until); time.Sleep(10 * time.Millisecond) {
						if evs = w.events(); len(evs) >= atLeast {
							break
						}
					}
					time.Sleep(30 * time.Millisecond)
					return w.events()
				}
				if sc.preLogin != nil {
					select {
					case logins <- *sc.preLogin:
					case <-time.After(3 * time.Second):
					}
					sendLines(sc.preLines)
					settle(sc.preWant, 4*time.Second)
				}
				var wg sync.WaitGroup
				deliverLogin := func() {
					wg.Add(1)
					go func() {
						defer wg.Done()
						select {
						case logins <- sc.login:
						case <-time.After(3 * time.Second):
						}
					}()
				}
				deliverLines := func() {
					wg.Add(1)
					go func() {
						defer wg.Done()
						sendLines(sc.lines)
					}()
				}
				h.arm(k)
				if side == "login-held-at-a-log-point" {
					deliverLogin()
				} else {
					deliverLines()
				}
				reached := false
				select {
				case <-h.paused:
					reached = true
				case <-time.After(150 * time.Millisecond):
				}
				// the other half, while the first is held (it goes as far as the code under test lets it)
				if side == "login-held-at-a-log-point" {
					deliverLines()
				} else {
					deliverLogin()
				}
				time.Sleep(60 * time.Millisecond)
				at := h.last
				close(h.release)
				wg.Wait()
				sendLines(sc.post)
				// settle: everything delivered, the reassembler has handed over all but the last record
				evs := settle(sc.total, 4*time.Second)
				cancel()
				select {
				case <-done:
				case <-time.After(5 * time.Second):
				}
				if reached {
					points++
				}
				msg := ""
				select {
				case p := <-deadlock:
					msg = "the Read loop never got the correlator's lock: " + p
				default:
				}
				seen := map[string]int{}
				for _, e := range evs {
					key := e.Metadata.AuditID + "@" + fmt.Sprint(e.LoggedAt.Unix())
					seen[key]++
					for _, wn := range sc.want {
						if wn.ses == e.Metadata.AuditID && identity(&e) != wn.ident {
							msg = "an event of session " + wn.ses + " carries another identity than its login's"
						}
					}
				}
				for _, wn := range sc.want {
					if c := seen[wn.ses+"@"+fmt.Sprint(wn.sec)]; c != 1 && msg == "" {
						msg = fmt.Sprintf("session %s's record with kernel time %d was emitted %d times, want once (every sequential order of these deliveries emits it once)", wn.ses, wn.sec, c)
					}
				}
				if len(samples) < 8 && reached && k%3 == 1 {
					samples = append(samples, fmt.Sprintf("%s: %s #%d (%q): %d events", sc.name, side, k, at, len(evs)))
				}
				if msg != "" {
					run.Violation(fmt.Sprintf("C03:read:%d:%s", si+1, side), map[string]any{"scenario": sc.name, "side": side, "log_point": k, "statement": at},
						fmt.Sprintf("through Auditd.Read, %s: %s number %d (%q) while the other half is delivered: %s", sc.name, side, k, at, msg))
				}
				if !reached {
					break // fewer than k log statements on this side: all its log points have been visited
				}
			}
		}
	}
	cov := mc.Coverage{Level: "model_checking", States: points, Transitions: n, Traces: n, Evaluations: n, Distinct: points, Exhaustive: true, Samples: samples,
		Rule:  "the real Auditd.Read (real goroutines, real time), two pairs of halves {a login || its LOGIN record and a follow-up event; the credential-disposal record of a correlated session || the login of another connection, whose session follows}: the goroutine delivering one half (the login through the Read loop / the records through parser, reassembler and callback) is stopped at its k-th debug log statement for every k, the other half is delivered meanwhile, then the first is released; oracle: every record concerned is emitted exactly once with its own login's identity, as in every sequential order. One preemption, at log-statement granularity, both directions. states = log points at which a goroutine was actually held",
		Extra: map[string]any{"log_points_visited": points, "scenarios": len(scens)}}
	cov.Assumptions = []string{"preemption points are the debug log statements of the code under test (lock-granularity interleavings of the tracker object itself are explored by the scheduler part of C03)", "real time: a held goroutine is released after 60 ms; the OS scheduler is otherwise not controlled"}
	return run.Finish(cov)
}
