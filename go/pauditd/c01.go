package pauditd

import (
	"fmt"
	"strings"
	"testing"

	"github.com/metal-toolbox/audito-maldito/internal/common"
	"github.com/metal-toolbox/audito-maldito/internal/verif/auditgen"
	"github.com/metal-toolbox/audito-maldito/internal/verif/mc"
)

// C01/C02/C04 at parser level: the histories of the correlator checks rendered
// as audit log text and login hand-offs, every arrival interleaving delivered
// one item at a time to the real Auditd.Read (parser -> reassembler -> callback
// -> tracker) in a synctest bubble; identity and sequence oracles on the
// production JSON writer after every step.
type pItem struct {
	sess  int // index of the session / login
	kind  string
	line  string
	label string // action the emitted event must carry (aucoalesce's), "" = not compared
}

func runC01parser(t *testing.T, run *mc.Run) int {
	type sess struct {
		id, pid string
		recs    []string // record types in order
	}
	sessions := []sess{
		{"21", "7101", []string{"LOGIN", "USER_START", "CRED_DISP", "USER_END"}},
		{"22", "7102", []string{"LOGIN", "USER_ACCT", "CRED_DISP", "USER_END"}},
	}
	// scripts: per session its records; per login one item; thorough adds a decoy login and a session without login
	var scripts [][]pItem
	seq := 9000
	for si, s := range sessions {
		var sc []pItem
		for ri, typ := range s.recs {
			seq++
			res := "success"
			if typ == "LOGIN" {
				res = "1"
			}
			g := auditgen.Simple(typ, 1700002000+int64(si*10+ri), seq, s.id, s.pid, res)
			line := g.Recs[0].Line
			// decoration that must not matter: the LOGIN record names the OTHER session as the one its process
			// came from, the session ends with a record from a replaced sshd binary
			other := sessions[(si+1)%len(sessions)]
			line = strings.Replace(line, "old-ses=4294967295", "old-ses="+other.id, 1)
			if typ == "CRED_DISP" {
				line = strings.Replace(line, `exe="/usr/sbin/sshd"`, `exe="/usr/sbin/sshd (deleted)"`, 1)
			}
			sc = append(sc, pItem{sess: si, kind: typ, line: line})
		}
		scripts = append(scripts, sc)
		scripts = append(scripts, []pItem{{sess: si, kind: "login"}})
	}
	if run.Thorough() {
		scripts = append(scripts, []pItem{{sess: 2, kind: "login"}}) // pid 7103 opens no session
	}
	pidOf := func(i int) int { return 7101 + i }
	n, nontriv := 0, 0
	var samples []any
	complete := true
	pos := make([]int, len(scripts))
	var cur []pItem
	var rec func()
	rec = func() {
		if !complete {
			return
		}
		done := true
		for i := range scripts {
			if pos[i] < len(scripts[i]) {
				done = false
				cur = append(cur, scripts[i][pos[i]])
				pos[i]++
				rec()
				pos[i]--
				cur = cur[:len(cur)-1]
			}
		}
		if !done {
			return
		}
		if run.Expired() {
			complete = false
			return
		}
		order := append([]pItem{}, cur...)
		n++
		var names []string
		for _, it := range order {
			names = append(names, fmt.Sprintf("%s%d", it.kind, it.sess))
		}
		var msg string
		bubble(t, func() {
			r := startRead(0)
			defer r.stop()
			logins := map[int]common.RemoteUserLogin{}
			idOf := map[int]string{}
			loginSeen := map[int]bool{}
			loginRecSeen := map[int]bool{}
			dispSeen := map[int]bool{}
			var expect = map[int][]int64{} // per session: timestamps that must have been emitted, in order
			held := map[int][]int64{}
			nOut := 0
			for step, it := range order {
				switch it.kind {
				case "login":
					lg := mkLogin(pidOf(it.sess), fmt.Sprint(it.sess+1))
					logins[it.sess] = lg
					idOf[it.sess] = identity(lg.Source)
					if !r.offerLogin(lg) {
						msg = fmt.Sprintf("step %d: the login was not consumed (processor stopped: %v)", step, r.ret)
						return
					}
					loginSeen[it.sess] = true
					if it.sess < len(sessions) && loginRecSeen[it.sess] {
						expect[it.sess] = append(expect[it.sess], held[it.sess]...)
						held[it.sess] = nil
					}
				default:
					if !r.offerLine(it.line + "\n") {
						msg = fmt.Sprintf("step %d: the line was not consumed (processor stopped: %v)", step, r.ret)
						return
					}
					ts := tsOf(it.line)
					if it.kind == "LOGIN" {
						loginRecSeen[it.sess] = true
					}
					if loginRecSeen[it.sess] && !dispSeen[it.sess] {
						if loginSeen[it.sess] {
							expect[it.sess] = append(expect[it.sess], ts)
						} else {
							held[it.sess] = append(held[it.sess], ts)
						}
					}
					if it.kind == "CRED_DISP" && loginRecSeen[it.sess] {
						dispSeen[it.sess] = true
					}
				}
				// oracle on everything written so far
				evs, bad := r.w.events()
				if len(bad) > 0 {
					msg = "a write is not one JSON event line: " + bad[0]
					return
				}
				for _, e := range evs[nOut:] {
					si := -1
					for k, s := range sessions {
						if s.id == e.Metadata.AuditID {
							si = k
						}
					}
					switch {
					case e.Type != "UserAction":
						msg = "unexpected event type " + e.Type
					case si < 0:
						msg = fmt.Sprintf("step %d: event with auditId %q belongs to no session of the history", step, e.Metadata.AuditID)
					case !loginRecSeen[si]:
						msg = fmt.Sprintf("step %d: event of session %s emitted before its LOGIN record was processed", step, sessions[si].id)
					case !loginSeen[si]:
						msg = fmt.Sprintf("step %d: event of session %s emitted although the login with pid %s has not arrived", step, sessions[si].id, sessions[si].pid)
					case identity(&e) != idOf[si]:
						msg = fmt.Sprintf("step %d: event of session %s (opened by pid %s) carries %s", step, sessions[si].id, sessions[si].pid, identity(&e))
					}
					if msg != "" {
						return
					}
				}
				nOut = len(evs)
			}
			vsleep(3e9)
			// sequence oracle (C02): for correlated sessions exactly LOGIN..CRED_DISP, in order, then optional late events
			evs, _ := r.w.events()
			got := map[int][]int64{}
			for _, e := range evs {
				for k, s := range sessions {
					if s.id == e.Metadata.AuditID {
						got[k] = append(got[k], e.LoggedAt.Unix())
					}
				}
			}
			for k := range sessions {
				want := expect[k]
				g := got[k]
				if len(g) < len(want) {
					msg = fmt.Sprintf("session %s: %d of the %d events from its LOGIN record to its credential disposal were emitted", sessions[k].id, len(g), len(want))
					return
				}
				for i := range want {
					if g[i] != want[i] {
						msg = fmt.Sprintf("session %s: events emitted out of order or duplicated (got %v want prefix %v)", sessions[k].id, g, want)
						return
					}
				}
				seen := map[int64]bool{}
				for _, ts := range g {
					if seen[ts] {
						msg = fmt.Sprintf("session %s: an event was emitted twice", sessions[k].id)
						return
					}
					seen[ts] = true
				}
			}
		})
		if strings.Contains(strings.Join(names, " "), "LOGIN0") && strings.Index(strings.Join(names, " "), "LOGIN1") < strings.Index(strings.Join(names, " "), "CRED_DISP0") {
			nontriv++
		}
		if len(samples) < 3 && n%1500 == 7 {
			samples = append(samples, strings.Join(names, " "))
		}
		if msg != "" {
			run.Violation("C01:parser:"+strings.Join(strings.Fields(msg)[2:5], "_"), map[string]any{"order": names}, fmt.Sprintf("arrival order %v: %s", names, msg))
		}
	}
	rec()
	cov := mc.Coverage{Level: "model_checking", States: n, Transitions: n * 10, Traces: n, Evaluations: n, Distinct: nontriv, Exhaustive: complete, Samples: samples,
		Rule:  "parser level: every arrival interleaving of two sessions' audit records (LOGIN, event, CRED_DISP, late event; as auditd log lines) and the logins' hand-offs (thorough: plus a decoy login) delivered one item at a time to the real Auditd.Read in a synctest bubble; after every step every newly written event must belong to a session whose LOGIN record and login have arrived and carry that login's identity; at the end each correlated session's LOGIN..CRED_DISP events appear exactly once in order. distinct_nontrivial = interleavings in which both sessions are open at once",
		Extra: map[string]any{"interleavings": n}}
	return run.Finish(cov)
}

func tsOf(line string) int64 {
	var sec int64
	i := strings.Index(line, "msg=audit(")
	fmt.Sscanf(line[i+len("msg=audit("):], "%d", &sec)
	return sec
}
