package pauditd

import (
	"fmt"
	"reflect"
	"strings"
	"testing"
	"time"

	"github.com/elastic/go-libaudit/v2/aucoalesce"
	"github.com/elastic/go-libaudit/v2/auparse"
	"github.com/metal-toolbox/auditevent"

	"github.com/metal-toolbox/audito-maldito/internal/verif/auditgen"
	"github.com/metal-toolbox/audito-maldito/internal/verif/mc"
)

const bindPID = 4242

func bindLines(ses string) string {
	return auditgen.Simple("LOGIN", 1600000000, 900, ses, fmt.Sprint(bindPID), "1").Recs[0].Line
}

// expectedFor coalesces the same records with the library directly.
func expectedFor(g auditgen.Group) (*aucoalesce.Event, error) {
	var msgs []*auparse.AuditMessage
	for _, r := range g.Recs {
		if r.Type == "EOE" {
			continue
		}
		m, err := auparse.ParseLogLine(r.Line)
		if err != nil {
			return nil, err
		}
		msgs = append(msgs, m)
	}
	ev, err := aucoalesce.CoalesceMessages(msgs)
	if err != nil {
		return nil, err
	}
	aucoalesce.ResolveIDs(ev)
	return ev, nil
}

// checkRendered compares an emitted UserAction with the generator's group.
func checkRendered(e *auditevent.AuditEvent, g auditgen.Group, wantIdentity string) string {
	exp, err := expectedFor(g)
	if err != nil {
		return "harness: cannot coalesce generated group: " + err.Error()
	}
	if e.Type != "UserAction" || e.Component != "auditd" {
		return fmt.Sprintf("type/component %q/%q", e.Type, e.Component)
	}
	if !e.LoggedAt.Equal(time.Unix(g.Sec, 123e6)) {
		return fmt.Sprintf("loggedAt %v, the record's timestamp is %v", e.LoggedAt.UTC(), time.Unix(g.Sec, 123e6).UTC())
	}
	if e.Metadata.AuditID != g.Session {
		return fmt.Sprintf("auditId %q, kernel session %q", e.Metadata.AuditID, g.Session)
	}
	want := "failed"
	if g.Success {
		want = "succeeded"
	}
	if e.Outcome != want {
		return fmt.Sprintf("outcome %q for result token %q, want %q", e.Outcome, g.Result, want)
	}
	ex := e.Metadata.Extra
	if fmt.Sprint(ex["action"]) != exp.Summary.Action || fmt.Sprint(ex["how"]) != exp.Summary.How {
		return fmt.Sprintf("action/how %v/%v, aucoalesce says %q/%q", ex["action"], ex["how"], exp.Summary.Action, exp.Summary.How)
	}
	obj, _ := ex["object"].(map[string]any)
	gotObj := aucoalesce.Object{}
	if obj != nil {
		gotObj.Type, _ = obj["type"].(string)
		gotObj.Primary, _ = obj["primary"].(string)
		gotObj.Secondary, _ = obj["secondary"].(string)
	}
	if gotObj != exp.Summary.Object {
		return fmt.Sprintf("object %+v, aucoalesce says %+v", gotObj, exp.Summary.Object)
	}
	var gotArgs []string
	if a, ok := ex["process_args"].([]any); ok {
		for _, v := range a {
			gotArgs = append(gotArgs, fmt.Sprint(v))
		}
	}
	if _, present := ex["process_args"]; present != (len(g.Args) > 0) {
		return fmt.Sprintf("process_args present=%v but the event has %d arguments", present, len(g.Args))
	}
	if len(g.Args) > 0 && !reflect.DeepEqual(gotArgs, g.Args) {
		return fmt.Sprintf("process_args %q, want %q", gotArgs, g.Args)
	}
	if identity(e) != wantIdentity {
		return "identity differs from the login's: " + identity(e)
	}
	return ""
}

type groupMode struct {
	g    auditgen.Group
	held bool
}

// groupModes: every group is rendered once with the login known first and once released from the hold queue.
func groupModes(gs []auditgen.Group) []groupMode {
	var out []groupMode
	for _, g := range gs {
		out = append(out, groupMode{g, false}, groupMode{g, true})
	}
	return out
}

func runC14(t *testing.T, run *mc.Run) int {
	groups := auditgen.Groups(run.Thorough())
	n, nontriv := 0, 0
	var samples []any
	for _, gm := range groupModes(groups) {
		g, held := gm.g, gm.held
		n++
		if len(g.Recs) > 1 {
			nontriv++
		}
		var msg string
		var raw []string
		bubble(t, func() {
			r := startRead(0)
			defer r.stop()
			unset := g.Session == "4294967295"
			ses := g.Session
			lg := mkLogin(bindPID, "1")
			snapshot := identity(lg.Source)
			if !held {
				r.offerLogin(lg) // login known first: the event is rendered directly
			}
			r.offerLine(bindLines(ses))
			for _, rec := range g.Recs {
				if !r.offerLine(rec.Line + "\n") {
					msg = "the processor stopped consuming lines: " + fmt.Sprint(r.ret)
					return
				}
			}
			vsleep(3 * time.Second) // let the reassembler's maintenance flush anything incomplete
			if held {
				r.offerLogin(lg) // login last: the event is rendered when it is released from the hold queue
			}
			evs, bad := r.w.events()
			raw = r.w.writes
			if len(bad) > 0 {
				msg = "a write is not one JSON event line: " + bad[0]
				return
			}
			if r.returned {
				msg = fmt.Sprintf("the processor stopped: %v", r.ret)
				return
			}
			if unset {
				if len(evs) != 0 {
					msg = fmt.Sprintf("%d events emitted for the kernel's unset session", len(evs))
				}
				return
			}
			if len(evs) != 2 {
				msg = fmt.Sprintf("%d events emitted for the binding LOGIN record + one audit event, want 2", len(evs))
				return
			}
			g2 := g
			g2.Session = ses
			msg = checkRendered(&evs[1], g2, snapshot)
			if msg == "" && identity(lg.Source) != snapshot {
				msg = "the stored login was altered while emitting"
			}
			if msg == "" && identity(&evs[0]) != identity(&evs[1]) {
				msg = "two events of one session carry different identity content"
			}
		})
		if msg != "" {
			var lines []string
			for _, rec := range g.Recs {
				lines = append(lines, rec.Line)
			}
			mode := "login-first"
			if held {
				mode = "released-from-hold-queue"
			}
			run.Violation("C14:"+g.Kind+":"+mode+":"+strings.Join(strings.Fields(msg)[:2], "_"), map[string]any{"group": lines, "session": g.Session, "mode": mode},
				fmt.Sprintf("audit event %s (result %s, %d args, %d records), %s: %s\nemitted: %v", g.Kind, g.Result, len(g.Args), len(g.Recs), mode, msg, raw))
		}
		if len(samples) < 4 && (len(g.Recs) > 2 || n < 3) {
			samples = append(samples, g.Recs[0].Line)
		}
	}
	// a compound group whose records are separated by many complete events of the same session (a burst between
	// the SYSCALL record and its EXECVE/CWD/PATH records): it is still rendered from ALL its records
	widths := []int{1, 63, 64, 65, 200}
	if run.Thorough() {
		widths = append(widths, 500, 900) // (the reassembler's window is 1000 events)
	}
	for _, k := range widths {
		n++
		nontriv++
		var msg string
		bubble(t, func() {
			r := startRead(0)
			defer r.stop()
			lg := mkLogin(bindPID, "1")
			snapshot := identity(lg.Source)
			r.offerLogin(lg)
			r.offerLine(bindLines("7"))
			g := auditgen.Syscall(1700000500, 5000, "7", "4243", "yes", []string{"ls", "--color=auto", "my dir"}, 2, false)
			r.offerLine(g.Recs[0].Line + "\n")
			for i := 0; i < k; i++ {
				r.offerLine(auditgen.Simple("USER_ACCT", 1700000501, 5001+i, "7", "4242", "success").Recs[0].Line + "\n")
			}
			for _, rec := range g.Recs[1:] {
				if !r.offerLine(rec.Line + "\n") {
					msg = "the processor stopped consuming lines: " + fmt.Sprint(r.ret)
					return
				}
			}
			vsleep(3 * time.Second)
			evs, bad := r.w.events()
			if len(bad) > 0 || r.returned {
				msg = fmt.Sprintf("bad writes %d, processor returned %v (%v)", len(bad), r.returned, r.ret)
				return
			}
			if len(evs) != k+2 {
				msg = fmt.Sprintf("%d events emitted for the binding LOGIN record + %d simple events + 1 compound event, want %d", len(evs), k, k+2)
				return
			}
			for i := range evs {
				if evs[i].LoggedAt.Equal(time.Unix(g.Sec, 123e6)) {
					msg = checkRendered(&evs[i], g, snapshot)
					return
				}
			}
			msg = "the compound event was not emitted"
		})
		if msg != "" {
			run.Violation(fmt.Sprintf("C14:SYSCALL:records-separated-by-other-events:%s", firstN(msg, 3)), map[string]any{"separated_by": k},
				fmt.Sprintf("SYSCALL record, then %d complete single-record events, then the EXECVE/CWD/PATH/PROCTITLE records of the same kernel event: %s", k, msg))
		}
	}
	cov := mc.Coverage{Level: "exploration", Evaluations: n, Distinct: nontriv, Exhaustive: true, Samples: samples,
		Rule:  "full product of the audit record-group generator (10 simple record types x result tokens; SYSCALL(+EXECVE argc 0/1/3)(+CWD)(+PATH x0..2)+PROCTITLE(+EOE) x success yes/no; sessions incl. 4294967295), each group's lines fed one by one to the real Auditd.Read (parser -> reassembler -> callback -> tracker) in a synctest bubble, once with the login known first and once with the login arriving last (event released from the hold queue); emitted UserAction compared field by field with the generating values and with aucoalesce's summary of the same records; plus a compound group whose SYSCALL record is separated from its other records by 1 / 63 / 64 / 65 / 200 (thorough: 500, 900) complete events. distinct_nontrivial = compound groups",
		Extra: map[string]any{"groups": n}}
	return run.Finish(cov)
}

func firstN(s string, n int) string {
	f := strings.Fields(s)
	if len(f) > n {
		f = f[:n]
	}
	return strings.Join(f, "_")
}
