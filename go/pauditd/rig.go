// Package pauditd drives the real audit processor (Auditd.Read with its
// parser, reassembler, callback and session tracker) inside testing/synctest
// bubbles: the harness owns every port (audit line channel, login channel,
// output writer, context, virtual clock) and delivers one environment event
// at a time, waiting for quiescence (every goroutine durably blocked) after
// each. Checks: C14, C15, C16(b), C13 (bubble states), C10(b).
package pauditd

import (
	"context"
	"encoding/json"
	"errors"
	"fmt"
	"github.com/metal-toolbox/audito-maldito/internal/verif/mc"
	"io"
	"strconv"
	"strings"
	"sync/atomic"
	"syscall"
	"testing"
	"testing/synctest"
	"time"

	"github.com/metal-toolbox/auditevent"

	"github.com/metal-toolbox/audito-maldito/internal/common"
	"github.com/metal-toolbox/audito-maldito/internal/health"
	"github.com/metal-toolbox/audito-maldito/processors/auditd"
	"github.com/metal-toolbox/audito-maldito/processors/sshd"
)

func init() {
	auditd.SetLogger(mc.DebugLogger())
	sshd.SetLogger(mc.DebugLogger())
}

var errInjected = errors.New("injected write failure")

// dressedErr is the injected write failure dressed up as something a real sink would report: it still IS
// errInjected, and it also matches (errors.Is) a well-known sentinel - a cancelled context of the sink's own, a
// deadline, a closed pipe, end of file. Which error the output reports must not decide whether it is reported.
type dressedErr struct{ as error }

func (d dressedErr) Error() string { return "sink: " + d.as.Error() + " (" + errInjected.Error() + ")" }
func (d dressedErr) Is(t error) bool {
	return t == errInjected || t == d.as
}
func (d dressedErr) Unwrap() error { return d.as }

// writeErrKinds are cycled through by the write-failure runs.
var writeErrKinds = []error{errInjected, dressedErr{context.Canceled}, dressedErr{context.DeadlineExceeded}, dressedErr{io.ErrClosedPipe}, dressedErr{io.EOF}, dressedErr{syscall.EPIPE}, dressedErr{syscall.EINTR}, dressedErr{syscall.EAGAIN}}

// writeErr is what a failing wrec returns.
var writeErr error = errInjected

// wrec is the io.Writer behind the production JSON event writer.
type wrec struct {
	writes []string
	failAt int // fail the k-th write and all later ones (0 = never)
	n      int
	// gate, if set, makes the next write wait until the harness sends its outcome (nil = succeed):
	// this holds the writing goroutine inside the correlator while other events are delivered
	gate chan error
}

func (w *wrec) Write(p []byte) (int, error) {
	w.n++
	if g := w.gate; g != nil {
		w.gate = nil
		atomic.AddInt64(&parkedAtGates, 1)
		defer atomic.AddInt64(&parkedAtGates, -1)
		select {
		case err := <-g:
			if err != nil {
				return 0, err
			}
		case <-time.After(6 * time.Hour):
			// (virtual time: only reached when the harness has left without letting the write go - the code under
			// test took another path than the cell expected; nobody stays parked here when the bubble ends)
		}
	}
	if w.failAt > 0 && w.n >= w.failAt {
		return 0, writeErr
	}
	w.writes = append(w.writes, string(p))
	return len(p), nil
}

// events decodes the writes; a payload that is not exactly one JSON event
// line is returned in bad (C10a).
func (w *wrec) events() (evs []auditevent.AuditEvent, bad []string) {
	for _, s := range w.writes {
		var e auditevent.AuditEvent
		if !strings.HasSuffix(s, "\n") || strings.Count(s, "\n") != 1 || json.Unmarshal([]byte(s), &e) != nil || e.Type == "" {
			bad = append(bad, s)
			continue
		}
		evs = append(evs, e)
	}
	return evs, bad
}

// rig is a running Auditd.Read inside the current bubble.
type rig struct {
	audits   chan string
	logins   chan common.RemoteUserLogin
	w        *wrec
	ew       *auditevent.EventWriter
	ctx      context.Context
	cancel   context.CancelFunc
	ret      error
	returned bool
}

func startRead(failAt int) *rig {
	r := &rig{audits: make(chan string), logins: make(chan common.RemoteUserLogin), w: &wrec{failAt: failAt}}
	r.ew = auditevent.NewDefaultAuditEventWriter(r.w)
	r.ctx, r.cancel = context.WithCancel(context.Background())
	a := auditd.Auditd{Audits: r.audits, Logins: r.logins, EventW: r.ew, Health: health.NewSingleReadinessHealth(auditd.AuditdProcessorComponentName)}
	go func() {
		r.ret = a.Read(r.ctx)
		r.returned = true
	}()
	synctest.Wait()
	return r
}

// offerLine delivers one line if somebody is receiving (at quiescence the
// parser goroutine, if alive, is waiting in its select), then waits for
// quiescence. Reports whether the line was consumed.
func (r *rig) offerLine(l string) bool {
	select {
	case r.audits <- l:
		synctest.Wait()
		return true
	default:
		return false
	}
}

func (r *rig) offerLogin(l common.RemoteUserLogin) bool {
	select {
	case r.logins <- l:
		synctest.Wait()
		return true
	default:
		return false
	}
}

// stop cancels and waits; call before leaving the bubble.
func (r *rig) stop() {
	r.cancel()
	synctest.Wait()
}

func mkLogin(pid int, who string) common.RemoteUserLogin {
	evt := auditevent.NewAuditEvent(common.ActionLoginIdentifier,
		auditevent.EventSource{Type: "IP", Value: "10.9.8." + who, Extra: map[string]any{"port": "5" + who}},
		auditevent.OutcomeSucceeded,
		map[string]string{"loggedAs": "user" + who, "userID": "cred" + who, "pid": strconv.Itoa(pid)},
		"sshd").WithTarget(map[string]string{"host": "node" + who, "machine-id": "m"})
	evt.LoggedAt = time.Now()
	return common.RemoteUserLogin{Source: evt, PID: pid, CredUserID: "cred" + who}
}

func identity(e *auditevent.AuditEvent) string {
	b, _ := json.Marshal(map[string]any{"subjects": e.Subjects, "source": e.Source, "target": e.Target})
	return string(b)
}

// parkedAtGates: writes currently held by a gate of the harness.
var parkedAtGates int64

func bubble(t *testing.T, f func()) {
	synctest.Test(t, func(t *testing.T) {
		f()
		synctest.Wait()
		// whatever the code under test is still sleeping on when the cell is over (a back-off, a retry pause) gets
		// the virtual time to finish: the bubble must not end with goroutines asleep
		time.Sleep(time.Hour)
		synctest.Wait()
		if atomic.LoadInt64(&parkedAtGates) > 0 {
			// a write is still held although the cell is over (the code under test took another path than the cell
			// expected): let the gate's own time-out pass before the bubble ends
			time.Sleep(7 * time.Hour)
			synctest.Wait()
		}
	})
}

func short(s string, n int) string {
	if len(s) > n {
		return s[:n] + "..."
	}
	return s
}

var _ = fmt.Sprint

// vsleep advances the virtual clock and then waits for quiescence: timers
// that fire at the wake-up instant are processed before the harness goes on.
func vsleep(d time.Duration) {
	time.Sleep(d)
	synctest.Wait()
}
