package pauditd

import (
	"context"
	"encoding/json"
	"errors"
	"fmt"
	"github.com/metal-toolbox/auditevent"
	"os"
	"strings"
	"testing"
	"testing/synctest"
	"time"

	"github.com/elastic/go-libaudit/v2/auparse"

	"github.com/metal-toolbox/audito-maldito/internal/common"
	"github.com/metal-toolbox/audito-maldito/internal/health"
	"github.com/metal-toolbox/audito-maldito/internal/verif/auditgen"
	"github.com/metal-toolbox/audito-maldito/internal/verif/mc"
	"github.com/metal-toolbox/audito-maldito/processors/auditd"
	"github.com/metal-toolbox/audito-maldito/processors/auditd/sessiontracker"
)

// kernel events of one stream (all in the bound session 7)
func streamEvents(n int) []auditgen.Group {
	all := []auditgen.Group{
		auditgen.Syscall(1700000011, 2001, "7", "5001", "yes", []string{"ls", "-l"}, 1, false), // 5 records, ends in PROCTITLE
		auditgen.Simple("USER_START", 1700000012, 2002, "7", "4242", "success"),
		auditgen.Syscall(1700000013, 2003, "7", "5002", "no", nil, 0, true), // SYSCALL CWD PROCTITLE EOE
	}
	return all[:n]
}

type srec struct {
	ev   int // index of the kernel event
	line string
}

// merges enumerates every interleaving of the events' record sequences that
// keeps each event's internal order.
func merges(evs []auditgen.Group, emit func([]srec)) {
	pos := make([]int, len(evs))
	var cur []srec
	var rec func()
	rec = func() {
		done := true
		for i := range evs {
			if pos[i] < len(evs[i].Recs) {
				done = false
				cur = append(cur, srec{i, evs[i].Recs[pos[i]].Line})
				pos[i]++
				rec()
				pos[i]--
				cur = cur[:len(cur)-1]
			}
		}
		if done {
			emit(append([]srec{}, cur...))
		}
	}
	rec()
}

var malformed = []struct{ name, line string }{
	{"no-msg", "type=SYSCALL arch=c000003e syscall=59 success=yes"},
	{"bad-header", "type=SYSCALL msg=audit(notatime:xyz): arch=c000003e"},
	{"truncated-header", "type=SYSCALL msg=audit(1700000011.123"},
	{"binary-junk", "\x00\x01\xff\xfe garbage"},
	{"only-blanks", "   "},
	{"no-type", "msg=audit(1700000011.123:2001): arch=c000003e"},
	// a terminator character in FRONT of content (LF-CR line endings, a stray CR): the line is not empty
	{"cr-before-garbage", "\rgarbage after a carriage return"},
	// a single token (a record cut off inside its first field)
	{"node-prefix-only", "node=ip-10-0-0-12.ec2.internal"},
	{"single-token", "type=SYSCALL"},
	{"cr-before-record", "\rtype=USER_END msg=audit(1700000011.123:2001): pid=4242 uid=0 auid=9999 ses=7 msg='op=PAM:session_close res=success'"},
}

type c15case struct {
	Kind    string   `json:"kind"`
	Lines   []string `json:"lines"`
	Fault   string   `json:"fault"`
	FailAt  int      `json:"fail_at"`
	LoginAt int      `json:"login_at"`
}

// loginLast: the login is delivered after the whole stream (all its events are held, then released in one go).
var loginLast bool

// runStream delivers: login, binding LOGIN record, then the stream.
// fault kinds: "", "malformed:<line>@i", "write@k", "badpid", "badlogin:<kind>@i"
func runStream(t *testing.T, evs []auditgen.Group, stream []srec, insertAt int, insertLine string, failAt int, badLogin string) (msg string) {
	bubble(t, func() {
		r := startRead(failAt)
		defer r.stop()
		fail := func(f string, a ...any) {
			if msg == "" {
				msg = fmt.Sprintf(f, a...)
			}
		}
		lg := mkLogin(bindPID, "1")
		if !loginLast {
			r.offerLogin(lg)
		}
		r.offerLine(bindLines("7") + "\n")
		delivered := make([]int, len(evs))
		expectStop := ""
		var wantErr func(error) string
		for i := 0; i <= len(stream); i++ {
			if i == insertAt && insertLine != "" {
				if r.offerLine(insertLine+"\n") || true {
					if _, perr := auparse.ParseLogLine(insertLine + "\n"); perr != nil {
						expectStop = "malformed line"
						il := insertLine
						wantErr = func(err error) string {
							if !strings.Contains(err.Error(), strings.TrimSpace(il)) && !strings.Contains(err.Error(), il) {
								return "the error does not identify the offending line: " + err.Error()
							}
							return ""
						}
						break
					}
				}
			}
			if i == insertAt && badLogin != "" {
				var bl common.RemoteUserLogin
				switch badLogin {
				case "nil-source":
					bl = common.RemoteUserLogin{PID: 77, CredUserID: "x"}
				case "zero-pid":
					bl = mkLogin(77, "2")
					bl.PID = 0
				case "empty-cred":
					bl = mkLogin(77, "2")
					bl.CredUserID = ""
				case "empty-cred-copy-of-a-waiting-login":
					// a valid login of a pid without session arrives and waits; then the same login once more
					// (same event, same pid) but without its credential id
					v := mkLogin(77, "2")
					r.offerLogin(v)
					bl = v
					bl.CredUserID = ""
				}
				r.offerLogin(bl)
				expectStop = "invalid login"
				wantErr = func(err error) string {
					var ste *sessiontracker.SessionTrackerError
					if !errors.As(err, &ste) || !ste.RemoteLoginFailed() {
						return "the error is not the correlator's login-validation failure: " + err.Error()
					}
					return ""
				}
				break
			}
			if i == len(stream) {
				break
			}
			if !r.offerLine(stream[i].line + "\n") {
				if failAt > 0 {
					break // already stopped by the write failure
				}
				fail("line %d was not consumed: the processor stopped early with %v", i, r.ret)
				return
			}
			delivered[stream[i].ev]++
		}
		vsleep(3 * time.Second)
		if loginLast {
			// everything so far is held: the login arrives now and the events are released through the same writer
			r.offerLogin(lg)
			vsleep(time.Second)
		}
		evsOut, bad := r.w.events()
		if len(bad) > 0 {
			fail("a write is not one JSON event line: %q", bad[0])
		}
		// group the output by kernel event (timestamp)
		count := map[int64]int{}
		first := 1
		if len(evsOut) == 0 {
			first = 0
		}
		for _, e := range evsOut[first:] {
			count[e.LoggedAt.Unix()]++
		}
		if failAt > 0 {
			expectStop = "write failure"
			wantErr = func(err error) string {
				if !errors.Is(err, errInjected) {
					return "the error does not wrap the writer's error: " + err.Error()
				}
				return ""
			}
		}
		if expectStop != "" {
			if !r.returned {
				fail("%s: the audit processor keeps running (durably blocked, not returned)", expectStop)
				return
			}
			if r.ret == nil {
				fail("%s: the audit processor returned nil", expectStop)
				return
			}
			if m := wantErr(r.ret); m != "" {
				fail("%s: %s", expectStop, m)
			}
			if failAt > 0 {
				return
			}
			// every kernel event completely delivered before the fault was handed over exactly once
			for i, g := range evs {
				nrec := 0
				for _, rc := range g.Recs {
					if rc.Type != "EOE" || true {
						nrec++
					}
				}
				c := count[g.Sec]
				if delivered[i] == nrec && c != 1 {
					fail("%s: kernel event %d was completely delivered before the fault but reached the output %d times by the time Read returned", expectStop, g.Seq, c)
				}
				if c > 1 {
					fail("%s: kernel event %d reached the output %d times", expectStop, g.Seq, c)
				}
			}
			return
		}
		if r.returned {
			fail("the audit processor stopped on a well-formed stream: %v", r.ret)
			return
		}
		if len(evsOut) < 1 {
			fail("nothing emitted")
			return
		}
		want := identity(lg.Source)
		for _, g := range evs {
			if c := count[g.Sec]; c != 1 {
				fail("kernel event %d (%s, %d records) reached the output %d times, want exactly once (records of one kernel event must be grouped into one event)", g.Seq, g.Kind, len(g.Recs), c)
			}
		}
		for i := range evsOut[1:] {
			e := evsOut[1+i]
			for _, g := range evs {
				if e.LoggedAt.Unix() == g.Sec {
					if m := checkRendered(&e, g, want); m != "" {
						fail("kernel event %d: %s", g.Seq, m)
					}
				}
			}
		}
		if len(evsOut)-1 != len(evs) {
			fail("%d events emitted for %d kernel events", len(evsOut)-1, len(evs))
		}
	})
	return msg
}

func describe(stream []srec) []string {
	var out []string
	for _, s := range stream {
		out = append(out, s.line)
	}
	return out
}

func shape(stream []srec) string {
	var b strings.Builder
	for _, s := range stream {
		b.WriteByte(byte('A' + s.ev))
	}
	return b.String()
}

func runC15(t *testing.T, run *mc.Run) int {
	// three kernel events in flight in both tiers; quick injects faults into every 25th shape only
	nev := 3
	faultEvery := 25
	if run.Thorough() {
		faultEvery = 1
	}
	shapeNo := 0
	if run.Replay != "" {
		fmt.Println("replay: re-run `bin/check C15 thorough`; the case is identified by its key (stream shape, fault, position)")
		return 0
	}
	evs := streamEvents(nev)
	n, interleaved := 0, 0
	shapes := map[string]bool{}
	var samples []any
	complete := true
	viol := func(class string, stream []srec, detail, msg string) {
		run.Violation("C15:"+class, map[string]any{"stream": describe(stream), "detail": detail},
			fmt.Sprintf("stream shape %s (records of kernel events A,B,C in arrival order), %s: %s", shape(stream), detail, msg))
	}
	merges(evs, func(stream []srec) {
		if run.Expired() {
			complete = false
			return
		}
		sh := shape(stream)
		shapes[sh] = true
		if strings.Contains(sh, "AB") && strings.Contains(sh, "BA") || nev == 3 && strings.Contains(sh, "CA") {
			interleaved++
		}
		if len(samples) < 3 && len(shapes)%7 == 3 {
			samples = append(samples, sh)
		}
		// no fault
		n++
		if m := runStream(t, evs, stream, -1, "", 0, ""); m != "" {
			viol("grouping:"+strings.Join(strings.Fields(m)[:2], "_"), stream, "no fault", m)
		}
		shapeNo++
		if shapeNo%faultEvery != 0 {
			return
		}
		// a malformed line at every position; an empty line at every position
		for pos := 0; pos <= len(stream); pos++ {
			for _, ml := range malformed {
				if !run.Thorough() && pos%2 == 1 && ml.name != "bad-header" {
					continue
				}
				n++
				if m := runStream(t, evs, stream, pos, ml.line, 0, ""); m != "" {
					viol("malformed:"+ml.name, stream, fmt.Sprintf("malformed line %q at position %d", ml.line, pos), m)
				}
			}
		}
		// correlator failures: write failure at the k-th write, invalid login at every position
		for k := 1; k <= len(evs)+1; k++ {
			for ki, kind := range writeErrKinds {
				if !run.Thorough() && ki != 0 && (shapeNo/faultEvery+k+ki)%3 != 0 {
					continue // quick: the plain error always, the dressed-up ones in rotation
				}
				n++
				writeErr = kind
				m := runStream(t, evs, stream, -1, "", k, "")
				writeErr = errInjected
				if m != "" {
					viol("write-failure", stream, fmt.Sprintf("output write #%d fails with %q", k, kind), m)
				}
				if ki == 0 || run.Thorough() {
					// the same failure while the held events of the session are being released by a late login
					n++
					writeErr, loginLast = kind, true
					m := runStream(t, evs, stream, -1, "", k, "")
					writeErr, loginLast = errInjected, false
					if m != "" {
						viol("write-failure-while-releasing-held-events", stream, fmt.Sprintf("events held, login last, output write #%d fails with %q", k, kind), m)
					}
				}
			}
		}
		for pos := 0; pos <= len(stream); pos++ {
			for _, bl := range []string{"nil-source", "zero-pid", "empty-cred", "empty-cred-copy-of-a-waiting-login"} {
				if !run.Thorough() && pos%3 != 0 {
					continue
				}
				n++
				if m := runStream(t, evs, stream, pos, "", 0, bl); m != "" {
					viol("invalid-login:"+bl, stream, fmt.Sprintf("invalid login (%s) at position %d", bl, pos), m)
				}
			}
		}
	})
	// LOGIN record whose pid cannot be parsed (not a decimal number: letters, other bases and literal syntaxes,
	// digit separators, exponent, too large for any integer), with and without a login waiting for "that" pid
	for _, tok := range []string{"abc", "0x61af", "0X10", "0b101", "0o17", "1_000", "1e3", "12x", "99999999999999999999999"} {
		n++
		var badpid string
		bubble(t, func() {
			r := startRead(0)
			defer r.stop()
			r.offerLogin(mkLogin(25007, "3")) // 0x61af read as a number would be this pid
			l := strings.Replace(bindLines("7"), "pid=4242", "pid="+tok, 1)
			r.offerLine(l + "\n")
			vsleep(3 * time.Second)
			var ste *sessiontracker.SessionTrackerError
			switch {
			case !r.returned:
				badpid = "the audit processor keeps running after a LOGIN record with an unparsable pid"
			case r.ret == nil || !errors.As(r.ret, &ste) || !ste.ParsePIDFailed():
				badpid = fmt.Sprintf("returned %v, want the correlator's pid-parse failure", r.ret)
			}
		})
		if badpid != "" {
			viol("bad-pid", nil, "LOGIN record with pid="+tok, badpid)
		}
	}
	// an event the output cannot encode (a record stamped beyond year 9999: encoding/json refuses the time): that
	// is an output write error like any other - the processor stops with it, whether the event is written directly
	// or released from the hold queue among others (whether anything is written twice meanwhile is C10's business)
	for _, loginIsLast := range []bool{false, true} {
		n++
		if _, stop := unencodableCell(t, loginIsLast); stop != "" {
			viol("unencodable-event", nil, fmt.Sprintf("a record stamped in year 33658 (login last: %v)", loginIsLast), stop)
		}
	}
	// two ended sessions opened by one pid are both held when the login for that pid arrives, and the release of
	// the one the correlator visits first fails (its first event cannot be encoded): that failure stops the
	// processor, whatever is released afterwards (both iteration orders, the failing session always the first)
	for _, reverse := range []bool{false, true} {
		n++
		var twoHeld string
		hookCalls := 0
		common.VerifIterOrder = func(_ any, k int) []int {
			hookCalls++
			o := make([]int, k)
			for i := range o {
				o[i] = i
				if reverse {
					o[i] = k - 1 - i
				}
			}
			return o
		}
		bubble(t, func() {
			r := startRead(0)
			defer r.stop()
			for si, ses := range []string{"701", "702"} {
				for i, typ := range []string{"LOGIN", "USER_START", "CRED_DISP"} {
					res := "success"
					if typ == "LOGIN" {
						res = "1"
					}
					sec := 1700000200 + int64(si*10+i)
					if i == 0 && (si == 1) == reverse {
						sec = 999999999999 // year 33658: the JSON writer refuses it (the session that is visited first)
					}
					r.offerLine(auditgen.Simple(typ, sec, 7000+si*10+i, ses, "4242", res).Recs[0].Line + "\n")
				}
			}
			r.offerLine(auditgen.Simple("USER_ACCT", 1700000230, 7030, "9", "9", "success").Recs[0].Line + "\n")
			vsleep(3 * time.Second)
			hookBefore := hookCalls
			r.offerLogin(mkLogin(bindPID, "1"))
			vsleep(time.Second)
			orderForced := hookCalls > hookBefore // the correlator asked the hook in which order to visit its sessions
			if os.Getenv("VERIF_DEBUG") != "" {
				fmt.Println("DEBUG twoHeld: returned", r.returned, "err", r.ret, "writes", len(r.w.writes))
			}
			failing := "701"
			if reverse {
				failing = "702"
			}
			evs, _ := r.w.events()
			onlyHealthy := len(evs) > 0
			for _, e := range evs {
				if e.Metadata.AuditID == failing {
					onlyHealthy = false
				}
			}
			switch {
			case !r.returned && onlyHealthy && !orderForced:
				// the correlator did not ask the iteration hook (an implementation that keeps its sessions in a plain
				// map) and only events of the OTHER session were written: it visited that one first, the login
				// released it, nothing failed - the state this cell is about was not reached; not judged
			case !r.returned:
				twoHeld = fmt.Sprintf("the release of the session visited first failed, but the audit processor keeps running (%d events written)", len(r.w.writes))
			case r.ret == nil:
				twoHeld = "the audit processor returned nil"
			}
		})
		common.VerifIterOrder = nil
		if twoHeld != "" {
			viol("write-failure-while-releasing-two-sessions-of-one-pid", nil, fmt.Sprintf("sessions 701 and 702, both pid 4242, both ended, both held, the first event of the one the correlator visits first unencodable, then the login; iteration order reversed: %v", reverse), twoHeld)
		}
	}
	// record lengths: a record of every length around the sizes a reader or parser might have a limit at (read
	// buffers, the kernel's and auditd's maximum record sizes), delivered the way the pipe delivers it (with its
	// newline) and without: it becomes an event, or it stops the processor - it is never skipped
	var lens []int
	for _, c := range []int{1024, 4096, 8192, 8970, 9012, 16384, 65536} {
		for d := -2; d <= 2; d++ {
			lens = append(lens, c+d)
		}
	}
	if run.Thorough() {
		for l := 8900; l <= 9100; l++ {
			lens = append(lens, l)
		}
	}
	for _, l := range lens {
		for _, nl := range []string{"\n", ""} {
			n++
			var msg string
			bubble(t, func() {
				r := startRead(0)
				defer r.stop()
				r.offerLogin(mkLogin(bindPID, "1"))
				r.offerLine(bindLines("7") + "\n")
				base := auditgen.Simple("USER_CMD", 1700000061, 5001, "7", "4242", "success").Recs[0].Line
				pad := l - len(base)
				if pad < 0 {
					return
				}
				pad -= pad % 2 // the padded field is hex: keep it well-formed; lengths come out even-aligned to the base
				line := strings.Replace(base, "cmd=2E2F", "cmd="+strings.Repeat("41", pad/2)+"2E2F", 1)
				r.offerLine(line + nl)
				r.offerLine(auditgen.Simple("USER_ACCT", 1700000062, 5002, "7", "4242", "success").Recs[0].Line + "\n")
				vsleep(3 * time.Second)
				evs, _ := r.w.events()
				found := false
				for _, e := range evs {
					if e.LoggedAt.Unix() == 1700000061 {
						found = true
					}
				}
				if !found && !r.returned {
					msg = fmt.Sprintf("a %d-byte record (delivered %s its newline) was skipped: no event, and the processor keeps running", len(line), map[string]string{"\n": "with", "": "without"}[nl])
				}
			})
			if msg != "" {
				viol("record-length", nil, fmt.Sprintf("record of about %d bytes", l), msg)
			}
		}
	}
	// two deliveries in flight at once: a one-shot write failure is reported by the parser goroutine while
	// the Read goroutine is busy handing a login to the correlator (blocked on the tracker, not parked in its
	// select). The failure must still stop the processor.
	n++
	var busy string
	bubble(t, func() {
		r := startRead(0)
		defer r.stop()
		r.offerLogin(mkLogin(bindPID, "1"))
		gate := make(chan error)
		r.w.gate = gate
		r.offerLine(bindLines("7") + "\n") // the LOGIN record is being written: the parser goroutine waits inside the correlator
		if r.w.gate != nil {
			busy = "harness: the binding LOGIN record was not written"
			return
		}
		r.offerLogin(mkLogin(5555, "2")) // Read takes it and now waits for the correlator
		gate <- errInjected              // the write fails (once)
		synctest.Wait()
		vsleep(3e9)
		switch {
		case !r.returned:
			busy = "a write failure reported while Read was busy handling a login was dropped: the audit processor keeps running"
		case !errors.Is(r.ret, errInjected):
			busy = fmt.Sprintf("returned %v, want an error wrapping the write failure", r.ret)
		}
	})
	if busy != "" {
		viol("failure-while-read-busy", nil, "write failure while a login is in flight", busy)
	}
	// ... and the same while the reassembler also has something harmless to say: an event of the bound session is
	// flushed by the maintenance goroutine (its records stopped coming) and its write stalls; a login keeps Read
	// busy; the parser goroutine meanwhile pushes a record whose serial jumps ahead (events were lost); then the
	// stalled write fails. Whatever else was reported in between, the failure stops the processor.
	n++
	var lost string
	bubble(t, func() {
		r := startRead(0)
		defer r.stop()
		r.offerLogin(mkLogin(bindPID, "1"))
		r.offerLine(bindLines("7") + "\n")
		g := auditgen.Syscall(1700000300, 9500, "7", "4243", "yes", []string{"ls"}, 1, false)
		gate := make(chan error)
		r.w.gate = gate
		for _, rec := range g.Recs[:2] { // the event stays incomplete: the maintenance goroutine will flush it
			r.offerLine(rec.Line + "\n")
		}
		vsleep(3 * time.Second)
		if r.w.gate != nil {
			lost = "harness: the incomplete event was not flushed by the maintenance goroutine"
			return
		}
		r.offerLogin(mkLogin(5555, "2")) // Read takes it and now waits for the correlator
		// a record far ahead in the serial numbers, of no session: "events lost" is all there is to say about it
		go r.offerLine(auditgen.Simple("USER_ACCT", 1700000400, 99500, "4294967295", "9", "success").Recs[0].Line + "\n")
		vsleep(10 * time.Millisecond)
		go r.offerLine(auditgen.Simple("USER_ACCT", 1700000401, 99501, "4294967295", "9", "success").Recs[0].Line + "\n")
		vsleep(10 * time.Millisecond)
		select {
		case gate <- errInjected:
		default:
			lost = "harness: the stalled write was not waiting any more"
			return
		}
		vsleep(3 * time.Second)
		switch {
		case !r.returned:
			lost = "a write failure reported while Read was busy (and after the reassembler had reported lost events) was dropped: the audit processor keeps running"
		case !errors.Is(r.ret, errInjected):
			lost = fmt.Sprintf("returned %v, want an error wrapping the write failure", r.ret)
		}
	})
	if lost != "" {
		viol("failure-while-read-busy-after-lost-events", nil, "stalled write of a flushed event, login in flight, serial gap, then the write fails", lost)
	}
	// observation (not judged): a blank record arrives from the pipe as "\n"
	var blank string
	bubble(t, func() {
		r := startRead(0)
		defer r.stop()
		r.offerLine("\n")
		vsleep(3 * time.Second)
		blank = fmt.Sprintf("returned=%v err=%v", r.returned, r.ret)
	})
	// cancellation while kernel events are still being collected: the lines were received, so they still make it to
	// the correlator (Read flushes the reassembler on its way out) - with the login known before, the events are
	// written. Cancelled 0 / 1 / 1900 ms after the last line, with a complete simple record, an unfinished SYSCALL
	// group, or both waiting in the reassembler.
	for _, waitMS := range []int{0, 1, 1900} {
		for _, pending := range []string{"simple", "unfinished-group", "both"} {
			n++
			var msg string
			bubble(t, func() {
				r := startRead(0)
				r.offerLogin(mkLogin(bindPID, "1"))
				r.offerLine(bindLines("7") + "\n")
				vsleep(5 * time.Second)
				want := map[int64]bool{1600000000: true}
				if pending != "unfinished-group" {
					r.offerLine(auditgen.Simple("USER_START", 1700000021, 3001, "7", "4242", "success").Recs[0].Line + "\n")
					want[1700000021] = true
				}
				if pending != "simple" {
					g := auditgen.Syscall(1700000022, 3002, "7", "4242", "yes", []string{"ls", "-l"}, 1, false)
					for _, rec := range g.Recs[:len(g.Recs)-1] { // everything but the closing PROCTITLE
						r.offerLine(rec.Line + "\n")
					}
					want[1700000022] = true
				}
				if waitMS > 0 {
					vsleep(time.Duration(waitMS) * time.Millisecond)
				}
				r.cancel()
				synctest.Wait()
				vsleep(10 * time.Second)
				if !r.returned {
					msg = "the processor did not return after cancellation"
					return
				}
				evs, _ := r.w.events()
				got := map[int64]int{}
				for _, e := range evs {
					if e.Metadata.AuditID == "7" {
						got[e.LoggedAt.Unix()]++
					}
				}
				for sec := range want {
					if got[sec] != 1 {
						msg = fmt.Sprintf("the records with kernel time %d were received before the cancellation but their event was handed to the correlator %d times (returned: %v; events of the session by kernel time: %v)", sec, got[sec], r.ret, got)
					}
				}
			})
			if msg != "" {
				run.Violation("C15:cancelled-while-collecting:"+pending, map[string]any{"pending": pending, "cancel_after_ms": waitMS},
					fmt.Sprintf("cancellation %d ms after the last line, %s waiting in the reassembler: %s", waitMS, pending, msg))
			}
		}
	}
	// a malformed line behind a backlog: while the processor is inside an event write (held by the output) the line
	// buffer fills with k well-formed records of the session, one malformed line and three more records. The
	// well-formed records in front of the malformed one were received: each still becomes its event, and the error
	// names the malformed line.
	for _, k := range []int{1, 5, 63, 64, 65, 200} {
		n++
		var msg string
		bubble(t, func() {
			r := &rig{audits: make(chan string, 1000), logins: make(chan common.RemoteUserLogin), w: &wrec{}}
			r.ew = auditevent.NewDefaultAuditEventWriter(r.w)
			r.ctx, r.cancel = context.WithCancel(context.Background())
			a := auditd.Auditd{Audits: r.audits, Logins: r.logins, EventW: r.ew, Health: health.NewSingleReadinessHealth(auditd.AuditdProcessorComponentName)}
			go func() {
				r.ret = a.Read(r.ctx)
				r.returned = true
			}()
			synctest.Wait()
			defer r.stop()
			r.offerLogin(mkLogin(bindPID, "1"))
			r.audits <- bindLines("7") + "\n"
			r.audits <- auditgen.Simple("USER_START", 1700000021, 3001, "7", "4242", "success").Recs[0].Line + "\n"
			synctest.Wait()
			gate := make(chan error)
			r.w.gate = gate
			defer func() {
				select {
				case gate <- nil:
				default:
				}
				synctest.Wait()
			}()
			r.audits <- auditgen.Simple("USER_ACCT", 1700000022, 3002, "7", "4242", "success").Recs[0].Line + "\n"
			synctest.Wait() // the parser is inside the write of an event
			for i := 0; i < k; i++ {
				r.audits <- auditgen.Simple("USER_ACCT", 1700000030+int64(i), 3100+i, "7", "4242", "success").Recs[0].Line + "\n"
			}
			bad := "type=USER_ACCT msg=audit(17000000xx.123:9999): pid=4242 garbage"
			r.audits <- bad + "\n"
			for i := 0; i < 3; i++ {
				r.audits <- auditgen.Simple("USER_ACCT", 1700000900+int64(i), 9100+i, "7", "4242", "success").Recs[0].Line + "\n"
			}
			select {
			case gate <- nil:
			default:
			}
			vsleep(10 * time.Second)
			if !r.returned {
				msg = "the processor is still running although a malformed line was received"
				return
			}
			if !strings.Contains(fmt.Sprint(r.ret), "17000000xx") {
				msg = fmt.Sprintf("the error does not identify the malformed line: %v", r.ret)
				return
			}
			evs, _ := r.w.events()
			got := 0
			for _, e := range evs {
				if e.Metadata.AuditID == "7" && e.LoggedAt.Unix() < 1700000900 {
					got++
				}
			}
			if got != 3+k {
				msg = fmt.Sprintf("%d records of the session were received in front of the malformed line (each a complete event), %d events were handed to the correlator and written", 3+k, got)
			}
		})
		if msg != "" {
			run.Violation("C15:malformed-line-behind-a-backlog", map[string]any{"well_formed_lines_queued_in_front": k},
				fmt.Sprintf("a malformed line with %d well-formed records queued in front of it in the line buffer: %s", k, msg))
		}
	}
	run.Note("observation, not judged (the statement speaks of non-empty lines): a blank record delivered as \"\\n\": %s", short(blank, 160))
	cov := mc.Coverage{Level: "model_checking", States: len(shapes), Transitions: n, Traces: n, Evaluations: n, Distinct: interleaved, Exhaustive: complete, Samples: samples,
		Rule:  fmt.Sprintf("every merge of the record sequences of %d kernel events (5-record SYSCALL group, simple record, 4-record SYSCALL group ending in EOE) that keeps each event's internal order, x {no fault (every merge); for every merge (thorough) / every 25th merge (quick): each of 10 malformed line shapes at every position; output write failing at the k-th write for every k (login first, and login last so that the failure hits the release of held events), with the plain error and with errors that also match context.Canceled / DeadlineExceeded / ErrClosedPipe / EOF / EPIPE; 4 kinds of invalid login (no source, pid 0, no credential id, and a copy of a login that is waiting with its credential id removed) at every position; records of every length within 2 bytes of 1024 / 4096 / 8192 / 8970 / 9012 / 16384 / 65536 (thorough: every length 8900..9100), with and without their newline; a malformed line with 1 / 5 / 63 / 64 / 65 / 200 well-formed records queued in front of it in the line buffer (each still becomes its event; the error names the line); cancellation 0 / 1 / 1900 ms after the last line while a simple record, an unfinished SYSCALL group or both are still held by the reassembler (they are flushed to the correlator)}, delivered line by line to the real Auditd.Read in a synctest bubble ('does not return' = durably blocked). states = distinct stream shapes; distinct_nontrivial = shapes in which records of different kernel events interleave", nev),
		Extra: map[string]any{"kernel_events": nev, "stream_shapes": len(shapes), "malformed_shapes": len(malformed)}}
	cov.Assumptions = []string{"testing/synctest durable-blocking semantics and virtual clock", "events are observed through the real tracker with the session bound, i.e. at the output writer"}
	return run.Finish(cov)
}

// unencodableCell: a session with an event the output cannot encode (a record stamped beyond year 9999) between
// ordinary ones, the login first or last, further events of the session afterwards. Returns what is wrong with
// the output (an event written twice) and what is wrong with the processor's reaction (it must stop with an error).
func unencodableCell(t *testing.T, loginIsLast bool) (dup, stop string) {
	bubble(t, func() {
		r := startRead(0)
		defer r.stop()
		lg := mkLogin(bindPID, "1")
		if !loginIsLast {
			r.offerLogin(lg)
		}
		r.offerLine(bindLines("7") + "\n")
		for i, sec := range []int64{1700000031, 999999999999, 1700000033, 1700000034} {
			typ := []string{"USER_START", "USER_ACCT", "USER_END", "USER_AUTH"}[i]
			if !r.offerLine(auditgen.Simple(typ, sec, 4001+i, "7", "4242", "success").Recs[0].Line + "\n") {
				break
			}
		}
		vsleep(3 * time.Second)
		if loginIsLast {
			r.offerLogin(lg)
			vsleep(time.Second)
		}
		// the stream goes on for a moment (lines already in the pipeline when the processor gives up)
		for i, typ := range []string{"USER_CMD", "USER_AUTH"} {
			if !r.offerLine(auditgen.Simple(typ, 1700000040+int64(i), 4010+i, "7", "4242", "success").Recs[0].Line + "\n") {
				break
			}
		}
		vsleep(3 * time.Second)
		seen := map[string]int{}
		for _, wr := range r.w.writes {
			seen[wr]++
			if seen[wr] > 1 && dup == "" {
				var acts []string
				for _, x := range r.w.writes {
					var e auditevent.AuditEvent
					_ = json.Unmarshal([]byte(x), &e)
					acts = append(acts, fmt.Sprint(e.Metadata.Extra["action"]))
				}
				dup = fmt.Sprintf("an event was written twice (writes in order: %v; processor returned=%v err=%v): %s", acts, r.returned, r.ret, short(wr, 100))
			}
		}
		switch {
		case !r.returned:
			stop = "the audit processor keeps running after an event that the output could not encode"
		case r.ret == nil:
			stop = "the audit processor returned nil after an event that the output could not encode"
		}
	})
	return dup, stop
}
