package pauditd

import (
	"fmt"
	"testing"
	"time"

	"github.com/prometheus/client_golang/prometheus"

	"github.com/metal-toolbox/auditevent"

	"github.com/metal-toolbox/audito-maldito/internal/metrics"
	"github.com/metal-toolbox/audito-maldito/internal/verif/auditgen"
	"github.com/metal-toolbox/audito-maldito/internal/verif/mc"
	"github.com/metal-toolbox/audito-maldito/processors/sshd"
)

// C09 at the level of the daemon's wiring (the real sshd processor feeding the real Auditd.Read over one
// unbuffered logins channel, one shared events output): a short session whose records all precede its login line,
// the pid reused by the next connection, both login lines handled by the sshd worker one after the other while
// the audit processor is busy for a while. The logins must reach the correlator in the order of their lines: the
// ended session is released with its own login, the new session gets the new one.
func runC09wiring(t *testing.T, run *mc.Run) int {
	n := 0
	var samples []any
	for _, busy := range []time.Duration{0, 2 * time.Second} {
		for _, unrelatedFirst := range []bool{false, true} {
			n++
			var msg string
			bubble(t, func() {
				r := startRead(0)
				defer r.stop()
				mp := metrics.NewPrometheusMetricsProviderForRegisterer(prometheus.NewRegistry())
				proc := sshd.NewSshdProcessor(r.ctx, r.logins, "node", "mid", auditevent.NewDefaultAuditEventWriter(r.w), mp)
				line := func(typ string, sec int64, seq int, ses, pid string) {
					res := "success"
					if typ == "LOGIN" {
						res = "1"
					}
					r.offerLine(auditgen.Simple(typ, sec, seq, ses, pid, res).Recs[0].Line + "\n")
				}
				// session 120 of pid 4002: complete, held (its login line is late)
				line("LOGIN", 1700000100, 9001, "120", "4002")
				line("USER_START", 1700000101, 9002, "120", "4002")
				line("CRED_DISP", 1700000102, 9003, "120", "4002")
				// another session, held, whose login keeps the audit processor busy for a while when it arrives
				line("LOGIN", 1700000103, 9004, "130", "4003")
				line("USER_START", 1700000104, 9005, "130", "4003")
				line("USER_ACCT", 1700000105, 9006, "130", "4003")
				vsleep(3 * time.Second)
				var gate chan error
				if busy > 0 {
					gate = make(chan error)
					r.w.gate = gate
				}
				// the sshd worker: one goroutine, lines in order
				lines := []struct{ pid, msg string }{
					{"4002", "Accepted password for alice from 10.1.1.1 port 4001 ssh2"}, // late login of the ended session
					{"4002", "Accepted password for bob from 10.1.1.2 port 4002 ssh2"},   // the next connection got the same pid
				}
				if unrelatedFirst {
					lines = append([]struct{ pid, msg string }{{"4003", "Accepted password for carol from 10.1.1.3 port 4003 ssh2"}}, lines...)
				} else {
					lines = append(lines, struct{ pid, msg string }{"4003", "Accepted password for carol from 10.1.1.3 port 4003 ssh2"})
				}
				workerDone := false
				go func() {
					for _, l := range lines {
						_ = proc.ProcessSshdLogEntry(r.ctx, sshd.SshdLogEntry{PID: l.pid, Message: l.msg})
					}
					workerDone = true
				}()
				vsleep(50 * time.Millisecond)
				if gate != nil {
					vsleep(busy)
					select {
					case gate <- nil:
					default:
					}
				}
				vsleep(time.Second)
				if !workerDone {
					msg = "the sshd worker is still blocked handing over a login although the audit processor is idle again"
					return
				}
				// the new session of pid 4002
				line("LOGIN", 1700000110, 9010, "121", "4002")
				line("USER_START", 1700000111, 9011, "121", "4002")
				line("USER_ACCT", 1700000112, 9012, "121", "4002")
				vsleep(3 * time.Second)
				evs, _ := r.w.events()
				who := map[string]map[string]int{}
				for _, e := range evs {
					if e.Type != "UserAction" {
						continue
					}
					if who[e.Metadata.AuditID] == nil {
						who[e.Metadata.AuditID] = map[string]int{}
					}
					who[e.Metadata.AuditID][e.Subjects["loggedAs"]]++
				}
				for ses, want := range map[string]string{"120": "alice", "121": "bob", "130": "carol"} {
					for name, c := range who[ses] {
						if name != want {
							msg = fmt.Sprintf("%d events of session %s carry the identity of %q, its login is %q's (all: %v)", c, ses, name, want, who)
						}
					}
					if msg == "" && who[ses][want] < 2 {
						msg = fmt.Sprintf("session %s: %d events emitted with its login's identity, want at least 2 (all: %v)", ses, who[ses][want], who)
					}
				}
			})
			if len(samples) < 4 {
				samples = append(samples, fmt.Sprintf("busy=%v unrelated-login-first=%v", busy, unrelatedFirst))
			}
			if msg != "" {
				run.Violation("C09:wiring:"+firstN(msg, 4), map[string]any{"busy_s": busy.Seconds(), "unrelated_first": unrelatedFirst},
					fmt.Sprintf("sshd processor -> unbuffered logins channel -> Auditd.Read, audit processor busy for %v, unrelated login line first: %v: %s", busy, unrelatedFirst, msg))
			}
		}
	}
	cov := mc.Coverage{Level: "exploration", Evaluations: n, Distinct: n, Exhaustive: true, Samples: samples,
		Rule:  "the daemon's wiring in a synctest bubble (real sshd processor, unbuffered logins channel, real Auditd.Read, shared output): an ended, held session of pid P; its late login line and the login line of the next connection with pid P handled by one sshd worker goroutine in line order, with an unrelated login line before or after, while the audit processor is idle or stuck in an event write for 2 s; oracle: every session's events carry its own login's identity. distinct_nontrivial = cells",
		Extra: map[string]any{"cells": n}}
	return run.Finish(cov)
}
