//go:debug asynctimerchan=0
package pdir

import (
	"fmt"
	"os"
	"testing"

	"github.com/metal-toolbox/audito-maldito/internal/verif/mc"
)

var exitCode = 2

func TestMain(m *testing.M) {
	if os.Getenv("VERIF_PROP") == "" {
		os.Exit(m.Run())
	}
	m.Run()
	os.Exit(exitCode)
}

func TestCheck(t *testing.T) {
	prop := os.Getenv("VERIF_PROP")
	if prop == "" {
		t.Skip()
	}
	run := mc.Start(prop)
	switch prop {
	case "C20":
		exitCode = runC20(t, run)
	default:
		fmt.Println("unknown property", prop)
	}
}
