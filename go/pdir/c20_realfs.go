//go:build realfs

// Fallback for C20 when the in-package export file no longer compiles against the repository (a refactoring
// renamed LogDirReader's unexported fields): the exported StartLogDirReader runs on a real directory with the
// real fsnotify watcher. Events cannot be delivered one at a time here; instead the harness waits after every
// change until the lines it must produce have arrived (or a settle time for changes that produce nothing),
// and a mismatch is only reported if it repeats with ten times longer settle times. Slower and shallower than
// the bubble version, same oracle.
package pdir

import (
	"context"
	"fmt"
	"os"
	"path/filepath"
	"sort"
	"strings"
	"sync"
	"testing"
	"time"

	"github.com/metal-toolbox/audito-maldito/internal/verif/mc"
	"github.com/metal-toolbox/audito-maldito/processors/auditd/dirreader"
)

type rop int

const (
	rAppend2 rop = iota
	rFragment
	rComplete
	rLong
	rRotate
	rTruncWrite
	rLongFragment
	rN
)

var ropNames = []string{"append2", "fragment", "complete-fragment", "long-line", "rotate", "truncate+write", "long-fragment"}

type collector struct {
	mu  sync.Mutex
	got []string
}

func (c *collector) n() int {
	c.mu.Lock()
	defer c.mu.Unlock()
	return len(c.got)
}

func appendFile(p, s string) {
	f, err := os.OpenFile(p, os.O_WRONLY|os.O_APPEND|os.O_CREATE, 0o600)
	if err != nil {
		panic(err)
	}
	_, _ = f.WriteString(s)
	f.Close()
}

func runReal(base string, init map[string]string, ops []rop, settle time.Duration) string {
	dir, err := os.MkdirTemp(base, "c20-")
	if err != nil {
		panic(err)
	}
	defer os.RemoveAll(dir)
	var want []string
	type f struct {
		n    int
		name string
	}
	var fs []f
	for name, content := range init {
		_ = os.WriteFile(filepath.Join(dir, name), []byte(content), 0o600)
		var n int
		if name == "audit.log" {
			n = 0
		} else if _, err := fmt.Sscanf(name, "audit.log.%d", &n); err != nil {
			continue
		}
		fs = append(fs, f{n, name})
	}
	sort.Slice(fs, func(i, j int) bool { return fs[i].n > fs[j].n })
	pending := ""
	for _, x := range fs {
		c := init[x.name]
		for {
			i := strings.IndexByte(c, '\n')
			if i < 0 {
				break
			}
			want = append(want, c[:i])
			c = c[i+1:]
		}
		if x.name == "audit.log" {
			pending = c
		}
	}
	ctx, cancel := context.WithCancel(context.Background())
	defer cancel()
	r, err := dirreader.StartLogDirReader(ctx, dir)
	if err != nil {
		return "StartLogDirReader: " + err.Error()
	}
	col := &collector{}
	stop := make(chan struct{})
	done := make(chan struct{})
	go func() {
		defer close(done)
		for {
			select {
			case l := <-r.Lines():
				col.mu.Lock()
				col.got = append(col.got, l)
				col.mu.Unlock()
			case <-stop:
				return
			}
		}
	}()
	waitFor := func(n int) {
		deadline := time.Now().Add(40 * settle)
		for col.n() < n && time.Now().Before(deadline) {
			time.Sleep(2 * time.Millisecond)
		}
		time.Sleep(settle / 3)
	}
	select {
	case <-r.InitFilesDone():
	case <-time.After(10 * time.Second):
		return "initial files not finished after 10 s"
	}
	waitFor(len(want))
	live := filepath.Join(dir, "audit.log")
	serial := 0
	line := func() string { serial++; return fmt.Sprintf("line-%d", serial) }
	for _, k := range ops {
		switch k {
		case rAppend2:
			a, b := line(), line()
			appendFile(live, a+"\n"+b+"\n")
			want = append(want, pending+a, b)
			pending = ""
			waitFor(len(want))
		case rFragment:
			fr := "frag-" + line()
			appendFile(live, fr)
			pending += fr
			time.Sleep(settle)
		case rLongFragment:
			fr := "lfrag-" + line() + strings.Repeat("F", 5000)
			appendFile(live, fr)
			pending += fr
			time.Sleep(settle)
		case rComplete:
			appendFile(live, "-end\n")
			want = append(want, pending+"-end")
			pending = ""
			waitFor(len(want))
		case rLong:
			l := line() + strings.Repeat("L", 5000)
			appendFile(live, l+"\n")
			want = append(want, pending+l)
			pending = ""
			waitFor(len(want))
		case rRotate:
			names, _ := os.ReadDir(dir)
			var nums []int
			for _, e := range names {
				var n int
				if _, err := fmt.Sscanf(e.Name(), "audit.log.%d", &n); err == nil {
					nums = append(nums, n)
				}
			}
			sort.Sort(sort.Reverse(sort.IntSlice(nums)))
			for _, n := range nums {
				_ = os.Rename(filepath.Join(dir, fmt.Sprintf("audit.log.%d", n)), filepath.Join(dir, fmt.Sprintf("audit.log.%d", n+1)))
			}
			_ = os.Rename(live, filepath.Join(dir, "audit.log.1"))
			time.Sleep(settle)
			_ = os.WriteFile(live, nil, 0o600)
			pending = ""
			time.Sleep(settle)
		case rTruncWrite:
			_ = os.Truncate(live, 0)
			pending = ""
			time.Sleep(settle)
			a := line()
			appendFile(live, a+"\n")
			want = append(want, a)
			waitFor(len(want))
		}
	}
	time.Sleep(2 * settle)
	cancel()
	close(stop)
	<-done
	_ = r.Wait()
	return diffReal(col.got, want)
}

func diffReal(got, want []string) string {
	clip := func(s string) string {
		if len(s) > 40 {
			return fmt.Sprintf("%s...(%d bytes)", s[:30], len(s))
		}
		return s
	}
	for i := 0; i < len(got) || i < len(want); i++ {
		switch {
		case i >= len(got):
			return fmt.Sprintf("line %d %q was never delivered (%d of %d delivered)", i, clip(want[i]), len(got), len(want))
		case i >= len(want):
			return fmt.Sprintf("extra line %d %q delivered (duplicate, partial or out of order)", i, clip(got[i]))
		case got[i] != want[i]:
			return fmt.Sprintf("line %d delivered as %q, want %q (order, duplication or framing)", i, clip(got[i]), clip(want[i]))
		}
	}
	return ""
}

func runC20(t *testing.T, run *mc.Run) int {
	depth := 3
	if run.Thorough() {
		depth = 4
	}
	base := os.Getenv("VERIF_BUILD")
	if base == "" {
		base = os.TempDir()
	}
	inits := []struct {
		name  string
		files map[string]string
	}{
		{"live-empty", map[string]string{"audit.log": ""}},
		{"live+fragment+2-rotated", map[string]string{"audit.log": "l0-a\nl0-b\nl0-frag", "audit.log.1": "l1-a\n", "audit.log.2": "l2-a\nl2-b\n"}},
	}
	big := map[string]string{"audit.log": "live-a\n"}
	for _, n := range []int{1, 2, 9, 10, 11, 100, 999} {
		big[fmt.Sprintf("audit.log.%d", n)] = fmt.Sprintf("r%d\n", n)
	}
	type job struct {
		init int
		ops  []rop
	}
	var jobs []job
	for ii := range inits {
		var rec func(seq []rop)
		rec = func(seq []rop) {
			jobs = append(jobs, job{ii, append([]rop{}, seq...)})
			if len(seq) == depth {
				return
			}
			for k := rop(0); k < rN; k++ {
				if k == rComplete {
					pend := ii == 1 && len(seq) == 0
					for _, o := range seq {
						pend = o == rFragment || o == rLongFragment
					}
					if !pend {
						continue
					}
				}
				rec(append(append([]rop{}, seq...), k))
			}
		}
		rec(nil)
	}
	n := 0
	var mu sync.Mutex
	var wg sync.WaitGroup
	ch := make(chan job)
	complete := true
	for w := 0; w < 8; w++ {
		wg.Add(1)
		go func() {
			defer wg.Done()
			for j := range ch {
				settle := 60 * time.Millisecond
				m := runReal(base, inits[j.init].files, j.ops, settle)
				if m != "" { // only believed if it repeats with much longer settle times
					m = runReal(base, inits[j.init].files, j.ops, 10*settle)
				}
				mu.Lock()
				n++
				if m != "" {
					var names []string
					for _, o := range j.ops {
						names = append(names, ropNames[o])
					}
					class := "initial"
					if len(names) > 0 {
						class = "ops:" + names[len(names)-1]
					}
					run.Violation("C20:"+class, map[string]any{"init": inits[j.init].name, "ops": names}, fmt.Sprintf("[real file system fallback] initial directory %q, operations %v: %s", inits[j.init].name, names, m))
				}
				mu.Unlock()
			}
		}()
	}
	for _, j := range jobs {
		if run.Expired() {
			complete = false
			break
		}
		ch <- j
	}
	close(ch)
	wg.Wait()
	if m := runReal(base, big, []rop{rAppend2}, 60*time.Millisecond); m != "" {
		if m = runReal(base, big, []rop{rAppend2}, 600*time.Millisecond); m != "" {
			run.Violation("C20:initial-order:sparse", map[string]any{"init": "sparse"}, "[real file system fallback] rotated files 1,2,9,10,11,100,999: "+m)
		}
	}
	n++
	run.Note("FALLBACK: the in-package export file did not compile against this tree; C20 ran on the real file system through StartLogDirReader (shallower, timing-tolerant)")
	cov := mc.Coverage{Level: "model_checking", States: n, Transitions: n * depth, Traces: n, Evaluations: n, Distinct: n - 2, Exhaustive: complete,
		Samples: []any{"fallback: real directory + real fsnotify; op sequences up to depth " + fmt.Sprint(depth)},
		Rule:    fmt.Sprintf("FALLBACK MODE (export file incompatible with the tree): every sequence of <=%d operations over the 7 operations from 2 initial directories plus a sparse-rotation directory, on a real directory through StartLogDirReader with the real fsnotify watcher; after each change the harness waits for the lines the change must produce (or a settle time), a mismatch counts only if it repeats with 10x settle time", depth),
		Extra:   map[string]any{"fallback_real_fs": true}}
	return run.Finish(cov)
}
