package pdir
