//go:build !realfs

// Package pdir checks C20: the real LogDirReader loop (initial files, tailing,
// rotation, truncation, back-off) runs in a testing/synctest bubble over an
// in-memory file system; the harness applies one file-system change at a time,
// delivers its fsnotify events one by one and waits for quiescence in between
// (the property's proviso), and compares the strings received from Lines()
// with a reference list.
package pdir

import (
	"context"
	"errors"
	"fmt"
	"io"
	"io/fs"
	"os"
	"sort"
	"strings"
	"testing"
	"testing/synctest"
	"time"

	"github.com/fsnotify/fsnotify"

	"github.com/metal-toolbox/audito-maldito/internal/verif/mc"
	"github.com/metal-toolbox/audito-maldito/processors/auditd/dirreader"
)

const dir = "/var/log/audit"

type memFS struct {
	files map[string][]byte // by base name
}

type memHandle struct {
	fs   *memFS
	name string
	data []byte // snapshot semantics are wrong for tailing: read through to the file
	pos  int64
}

type memInfo struct {
	name string
	size int64
}

func (i memInfo) Name() string       { return i.name }
func (i memInfo) Size() int64        { return i.size }
func (i memInfo) Mode() fs.FileMode  { return 0o600 }
func (i memInfo) ModTime() time.Time { return time.Time{} }
func (i memInfo) IsDir() bool        { return false }
func (i memInfo) Sys() any           { return nil }

func (h *memHandle) cur() []byte { return h.fs.files[h.name] }

func (h *memHandle) Stat() (fs.FileInfo, error) {
	return memInfo{h.name, int64(len(h.cur()))}, nil
}

// shortRead > 0: a Read returns at most that many bytes although more are available (legal for any io.Reader;
// network and FUSE file systems, interrupted reads).
var shortRead int

func (h *memHandle) Read(p []byte) (int, error) {
	d := h.cur()
	if h.pos >= int64(len(d)) {
		return 0, io.EOF
	}
	if shortRead > 0 && len(p) > shortRead {
		p = p[:shortRead]
	}
	n := copy(p, d[h.pos:])
	h.pos += int64(n)
	return n, nil
}

func (h *memHandle) Seek(off int64, whence int) (int64, error) {
	switch whence {
	case io.SeekStart:
		h.pos = off
	case io.SeekCurrent:
		h.pos += off
	case io.SeekEnd:
		h.pos = int64(len(h.cur())) + off
	}
	return h.pos, nil
}

func (h *memHandle) Close() error { return nil }

func (m *memFS) open(path string) (dirreader.VerifFile, error) {
	name := strings.TrimPrefix(path, dir+"/")
	if _, ok := m.files[name]; !ok {
		return nil, &fs.PathError{Op: "open", Path: path, Err: fs.ErrNotExist}
	}
	return &memHandle{fs: m, name: name}, nil
}

type dirEntry struct{ name string }

func (d dirEntry) Name() string               { return d.name }
func (d dirEntry) IsDir() bool                { return false }
func (d dirEntry) Type() fs.FileMode          { return 0 }
func (d dirEntry) Info() (fs.FileInfo, error) { return memInfo{d.name, 0}, nil }

// rotNum returns N of "audit.log.N" (0 for the live file, -1 for others).
func rotNum(name string) int {
	if name == "audit.log" {
		return 0
	}
	var n int
	if _, err := fmt.Sscanf(name, "audit.log.%d", &n); err == nil && fmt.Sprintf("audit.log.%d", n) == name {
		return n
	}
	return -1
}

// completeLines returns the newline-terminated lines of data (without newline).
func completeLines(data []byte) []string {
	var out []string
	s := string(data)
	for {
		i := strings.IndexByte(s, '\n')
		if i < 0 {
			return out
		}
		out = append(out, s[:i])
		s = s[i+1:]
	}
}

type opKind int

const (
	opAppend2 opKind = iota
	opFragment
	opComplete
	opLong
	opRotate
	opTruncWrite
	opLongFragment
	opRemoveCreate
	opEcho
	opSibling
	nOps
	// opHugeAppend is not part of the alphabet (one application moves 10 MB): it is used in two fixed sequences
	opHugeAppend
)

var opNames = []string{"append2", "fragment", "complete-fragment", "long-line", "rotate", "truncate+write", "long-fragment", "remove+create", "line-as-long-as-the-last-fragment", "sibling-files-change", "", "append-10MB-in-one-write"}

type world struct {
	fs       *memFS
	events   chan fsnotify.Event
	got      []string
	want     []string
	pending  string // unterminated tail of the live file
	lastFrag int    // length of the most recent unterminated tail (survives rotation: a reader must not remember it)
	serial   int
	stopColl chan struct{}
}

func (w *world) send(op fsnotify.Op, name string) {
	w.events <- fsnotify.Event{Name: dir + "/" + name, Op: op}
	synctest.Wait()
}

func (w *world) line() string {
	w.serial++
	return fmt.Sprintf("line-%d", w.serial)
}

// apply performs one file-system change with its events, one at a time.
func (w *world) apply(k opKind) {
	live := "audit.log"
	switch k {
	case opAppend2:
		a, b := w.line()+"\r", w.line() // (the first line ends in a carriage return: it belongs to the line)
		w.fs.files[live] = append(w.fs.files[live], []byte(a+"\n"+b+"\n")...)
		if w.pending != "" {
			a = w.pending + a
			w.pending = ""
		}
		w.want = append(w.want, a, b)
		w.send(fsnotify.Write, live)
	case opEcho:
		// a complete line exactly as long (newline included) as the unterminated tail seen last: the file grows by
		// the very number of bytes that were left unread before
		p := w.lastFrag
		if p < 2 {
			p = 2
		}
		l := strings.Repeat("e", p-1)
		w.fs.files[live] = append(w.fs.files[live], []byte(l+"\n")...)
		w.want = append(w.want, w.pending+l)
		w.pending = ""
		w.send(fsnotify.Write, live)
	case opFragment:
		f := "frag-" + w.line()
		w.fs.files[live] = append(w.fs.files[live], []byte(f)...)
		w.pending += f
		w.lastFrag = len(w.pending)
		w.send(fsnotify.Write, live)
	case opLongFragment:
		// an unterminated tail longer than the 4096-byte read buffer
		f := "lfrag-" + w.line() + strings.Repeat("F", 5000)
		w.fs.files[live] = append(w.fs.files[live], []byte(f)...)
		w.pending += f
		w.lastFrag = len(w.pending)
		w.send(fsnotify.Write, live)
	case opComplete:
		w.fs.files[live] = append(w.fs.files[live], []byte("-end\n")...)
		w.want = append(w.want, w.pending+"-end")
		w.pending = ""
		w.send(fsnotify.Write, live)
	case opLong:
		l := w.line() + strings.Repeat("L", 5000)
		w.fs.files[live] = append(w.fs.files[live], []byte(l+"\n")...)
		if w.pending != "" {
			l = w.pending + l
			w.pending = ""
		}
		w.want = append(w.want, l)
		w.send(fsnotify.Write, live)
	case opHugeAppend:
		// a burst: 80 000 lines of 128 bytes (more than 8 MiB, more than any per-event budget one would pick)
		// appended in one write, one event
		var b strings.Builder
		pad := strings.Repeat("h", 100)
		for i := 0; i < 80000; i++ {
			l := fmt.Sprintf("%s-%s-%07d", w.line(), pad, i)
			if i == 0 && w.pending != "" {
				w.want = append(w.want, w.pending+l)
				w.pending = ""
			} else {
				w.want = append(w.want, l)
			}
			b.WriteString(l + "\n")
		}
		w.fs.files[live] = append(w.fs.files[live], []byte(b.String())...)
		w.send(fsnotify.Write, live)
	case opSibling:
		// things happen next to the live file that are not its business: an old rotation is compressed
		// (audit.log.7.gz appears, is written, audit.log.7 - if there is one - goes away), an editor leaves a
		// backup, the live file's mode is touched. Nothing is delivered, and nothing already delivered comes again
		w.fs.files["audit.log.7.gz"] = []byte("\x1f\x8b\x08 not text\n")
		w.send(fsnotify.Create, "audit.log.7.gz")
		w.send(fsnotify.Write, "audit.log.7.gz")
		if _, ok := w.fs.files["audit.log.7"]; ok {
			delete(w.fs.files, "audit.log.7")
			w.send(fsnotify.Remove, "audit.log.7")
		}
		w.fs.files["audit.log~"] = []byte("backup\n")
		w.send(fsnotify.Create, "audit.log~")
		w.send(fsnotify.Chmod, live)
	case opRotate:
		// audit.log.N -> audit.log.N+1 ..., audit.log -> audit.log.1, new empty audit.log
		var nums []int
		for name := range w.fs.files {
			if n := rotNum(name); n > 0 {
				nums = append(nums, n)
			}
		}
		sort.Sort(sort.Reverse(sort.IntSlice(nums)))
		for _, n := range nums {
			from, to := fmt.Sprintf("audit.log.%d", n), fmt.Sprintf("audit.log.%d", n+1)
			w.fs.files[to] = w.fs.files[from]
			delete(w.fs.files, from)
			w.send(fsnotify.Rename, from)
			w.send(fsnotify.Create, to)
		}
		w.fs.files["audit.log.1"] = w.fs.files[live]
		delete(w.fs.files, live)
		w.send(fsnotify.Rename, live)
		w.send(fsnotify.Create, "audit.log.1")
		w.fs.files[live] = []byte{}
		w.send(fsnotify.Create, live)
		w.pending = "" // an unterminated tail stays in the rotated file for ever
	case opRemoveCreate:
		// the live file is deleted and created anew (no rename)
		delete(w.fs.files, live)
		w.send(fsnotify.Remove, live)
		w.fs.files[live] = []byte{}
		w.send(fsnotify.Create, live)
		w.pending = ""
	case opTruncWrite:
		w.fs.files[live] = []byte{}
		w.pending = ""
		w.send(fsnotify.Write, live)
		// (the first line written after the truncation begins with NUL bytes - what a hole left by copytruncate
		// would look like, except that here they ARE the line's first bytes)
		a := "\x00\x00" + w.line()
		w.fs.files[live] = append(w.fs.files[live], []byte(a+"\n")...)
		w.want = append(w.want, a)
		w.send(fsnotify.Write, live)
	}
}

type initDir struct {
	Name  string
	Files map[string]string
}

func initDirs(thorough bool) (small, big []initDir) {
	small = []initDir{
		{"live-empty", map[string]string{"audit.log": ""}},
		{"live+fragment+2-rotated", map[string]string{"audit.log": "l0-a\nl0-b\nl0-frag", "audit.log.1": "l1-a\n", "audit.log.2": "l2-a\nl2-b\n"}},
	}
	// rotated files that end in the middle of a record (auditd was killed, the disk was full): what follows their
	// last newline was never terminated and never will be
	small = append(small, initDir{"rotated-files-with-unterminated-tails", map[string]string{"audit.log": "l0-a\n", "audit.log.1": "l1-a\nl1-cut", "audit.log.2": "l2-a\nl2-b\ntype=SYSCALL msg=audit(1.2:3): cut sho"}})
	if thorough {
		small = append(small, initDir{"no-live-file-yet", map[string]string{"audit.log.1": "l1-a\n", "audit.log": ""}})
	}
	mk := func(name string, nums ...int) initDir {
		d := initDir{name, map[string]string{"audit.log": "live-a\nlive-b\n"}}
		for _, n := range nums {
			k := n%3 + 1
			var b strings.Builder
			for i := 0; i < k; i++ {
				fmt.Fprintf(&b, "r%d-%d\n", n, i)
			}
			if n == 1 {
				b.WriteString("r1-x\n")
			}
			d.Files[fmt.Sprintf("audit.log.%d", n)] = b.String()
		}
		return d
	}
	seq := func(n int) []int {
		var s []int
		for i := 1; i <= n; i++ {
			s = append(s, i)
		}
		return s
	}
	for n := 0; n <= 12; n++ {
		big = append(big, mk(fmt.Sprintf("%d-rotated", n), seq(n)...))
	}
	big = append(big, mk("sparse-1,2,10,100,999", 1, 2, 10, 100, 999), mk("sparse-9,10,11", 9, 10, 11), mk("sparse-2,20,200", 2, 20, 200))
	// every pair of rotation numbers around digit-count and bit-width boundaries
	edge := []int{1, 2, 9, 10, 11, 99, 100, 101, 127, 128, 255, 256, 257, 300, 999}
	for i := 0; i < len(edge); i++ {
		for j := i + 1; j < len(edge); j++ {
			if thorough || (i+j)%2 == 0 {
				big = append(big, mk(fmt.Sprintf("pair-%d,%d", edge[i], edge[j]), edge[i], edge[j]))
			}
		}
	}
	big = append(big, mk("edges-all", edge...))
	big = append(big, initDir{"unrelated-files", map[string]string{"audit.log": "live\n", "audit.log.1": "one\n", "other.log": "nope\n", "audit.log.bak": "", "audit.log.1.gz": ""}})
	return small, big
}

// expectedInitial: rotated files oldest (largest N) to newest, then live; only
// names that are exactly audit.log or audit.log.<N> are judged.
func expectedInitial(d initDir) (lines []string, judged bool) {
	type f struct {
		n    int
		name string
	}
	var fsz []f
	for name := range d.Files {
		n := rotNum(name)
		if n < 0 {
			if strings.HasPrefix(name, "audit.log") {
				return nil, false // the reader's treatment of other audit.log* names is not specified
			}
			continue
		}
		fsz = append(fsz, f{n, name})
	}
	sort.Slice(fsz, func(i, j int) bool { return fsz[i].n > fsz[j].n })
	for _, x := range fsz {
		lines = append(lines, completeLines([]byte(d.Files[x.name]))...)
	}
	return lines, true
}

type c20case struct {
	Init string   `json:"init"`
	Ops  []string `json:"ops"`
	// Hold >= 1: the consumer of Lines() stops after Hold-1 lines of the initial files; the first operation is
	// applied while the initial read is parked there (if it still is), then the consumer resumes
	Hold int `json:"hold,omitempty"`
	// ShortRead > 0: every Read of the in-memory file system returns at most that many bytes
	ShortRead int `json:"short_read,omitempty"`
}

// runCase runs one initial directory + op sequence; returns a mismatch message.
func runCase(t *testing.T, d initDir, ops []opKind) (msg string) { return runCaseHold(t, d, ops, 0) }

func runCaseHold(t *testing.T, d initDir, ops []opKind, hold int) (msg string) {
	synctest.Test(t, func(t *testing.T) {
		resume := make(chan struct{})
		w := &world{fs: &memFS{files: map[string][]byte{}}, events: make(chan fsnotify.Event), stopColl: make(chan struct{})}
		var entries []os.DirEntry
		var names []string
		for name := range d.Files {
			names = append(names, name)
		}
		sort.Strings(names) // os.ReadDir returns entries sorted by name
		for _, name := range names {
			w.fs.files[name] = []byte(d.Files[name])
			entries = append(entries, dirEntry{name})
		}
		init, judged := expectedInitial(d)
		w.want = append(w.want, init...)
		if i := strings.LastIndexByte(d.Files["audit.log"], '\n'); i < len(d.Files["audit.log"])-1 {
			w.pending = d.Files["audit.log"][i+1:]
			w.lastFrag = len(w.pending)
		}
		ctx, cancel := context.WithCancel(context.Background())
		r := dirreader.VerifStart(ctx, dir, entries, w.fs.open, w.events)
		collDone := make(chan struct{})
		go func() {
			defer close(collDone)
			for {
				if hold > 0 && len(w.got) == hold-1 {
					// a slow consumer: nothing is taken off Lines() until the harness says so
					select {
					case <-resume:
					case <-w.stopColl:
						return
					}
				}
				select {
				case l := <-r.Lines():
					w.got = append(w.got, l)
				case <-w.stopColl:
					return
				}
			}
		}()
		synctest.Wait()
		if hold > 0 {
			// the live file changes (and its event arrives) while the initial read is parked on the slow consumer
			w.apply(ops[0])
			ops = ops[1:]
			hold = 0
			close(resume)
			synctest.Wait()
		}
		select {
		case <-r.InitFilesDone():
		default:
			msg = "initial files not finished at quiescence"
		}
		if msg == "" {
			for _, k := range ops {
				w.apply(k)
			}
			time.Sleep(time.Second)
			synctest.Wait()
		}
		cancel()
		synctest.Wait()
		close(w.stopColl)
		<-collDone
		err := r.Wait()
		if msg == "" && !errors.Is(err, context.Canceled) {
			msg = fmt.Sprintf("the reader stopped by itself: %v", err)
		}
		if msg == "" && judged {
			msg = diff(w.got, w.want)
		}
	})
	return msg
}

func clip(s string) string {
	if len(s) > 40 {
		return fmt.Sprintf("%s...(%d bytes)", s[:30], len(s))
	}
	return s
}

func diff(got, want []string) string {
	for i := 0; i < len(got) || i < len(want); i++ {
		switch {
		case i >= len(got):
			return fmt.Sprintf("line %d %q was never delivered (%d of %d delivered)", i, clip(want[i]), len(got), len(want))
		case i >= len(want):
			return fmt.Sprintf("extra line %d %q delivered (duplicate, partial or out of order)", i, clip(got[i]))
		case got[i] != want[i]:
			return fmt.Sprintf("line %d delivered as %q, want %q (order, duplication or framing)", i, clip(got[i]), clip(want[i]))
		}
	}
	return ""
}

func runC20(t *testing.T, run *mc.Run) int {
	depth := 4
	if run.Thorough() {
		depth = 6
	}
	small, big := initDirs(run.Thorough())
	if run.Replay != "" {
		var rp c20case
		if _, err := mc.LoadReplay(run.Replay, &rp); err != nil {
			return 2
		}
		for _, d := range append(small, big...) {
			if d.Name == rp.Init {
				var ops []opKind
				for _, o := range rp.Ops {
					for k, n := range opNames {
						if n == o {
							ops = append(ops, opKind(k))
						}
					}
				}
				shortRead = rp.ShortRead
				m := runCaseHold(t, d, ops, rp.Hold)
				shortRead = 0
				fmt.Println("result:", m)
				if m != "" {
					fmt.Printf("VIOLATION property=C20 replay=%s\n", run.Replay)
					return 1
				}
				return 0
			}
		}
		return 2
	}
	n, withRotation := 0, 0
	complete := true
	var samples []any
	report := func(d initDir, ops []opKind, m string) {
		var names []string
		for _, o := range ops {
			names = append(names, opNames[o])
		}
		class := "tail"
		if len(ops) == 0 {
			class = "initial-order:" + d.Name
		} else {
			class = "ops:" + names[len(names)-1]
		}
		run.Violation("C20:"+class, c20case{Init: d.Name, Ops: names, ShortRead: shortRead}, fmt.Sprintf("initial directory %q, operations %v: %s", d.Name, names, m))
	}
	for pass := 0; pass < 2; pass++ {
		// second pass: the same sequences (one operation shorter) on a file system that reads short
		if pass == 1 {
			shortRead = 7
			depth--
		}
		for _, d := range small {
			var rec func(seq []opKind)
			rec = func(seq []opKind) {
				if run.Expired() {
					complete = false
					return
				}
				n++
				hasRot := false
				for _, o := range seq {
					if o == opRotate || o == opTruncWrite || o == opRemoveCreate {
						hasRot = true
					}
				}
				if hasRot {
					withRotation++
				}
				if m := runCase(t, d, seq); m != "" {
					report(d, seq, m)
				}
				if len(samples) < 4 && len(seq) == depth && n%997 == 0 {
					var names []string
					for _, o := range seq {
						names = append(names, opNames[o])
					}
					samples = append(samples, map[string]any{"init": d.Name, "ops": names})
				}
				if len(seq) == depth {
					return
				}
				for k := opKind(0); k < nOps; k++ {
					if k == opComplete {
						// only meaningful when a fragment is pending
						pend := strings.HasSuffix(d.Name, "fragment+2-rotated") && len(seq) == 0
						for _, o := range seq {
							switch o {
							case opFragment, opLongFragment:
								pend = true
							case opAppend2, opComplete, opLong, opRotate, opTruncWrite, opRemoveCreate, opEcho:
								pend = false
							}
						}
						if !pend {
							continue
						}
					}
					rec(append(append([]opKind{}, seq...), k))
				}
			}
			rec(nil)
		}
	}
	shortRead = 0
	depth++
	// a change of the live file, with its event, DURING the initial reads: the consumer of Lines() takes h-1
	// lines and stalls, the live file is appended to (Write event delivered while the initial read is parked),
	// the consumer resumes, and a later append flushes whatever the ignored event left unread
	during := 0
	for _, d := range small {
		init, judged := expectedInitial(d)
		if !judged {
			continue
		}
		for h := 1; h <= len(init)+1; h++ {
			for _, first := range []opKind{opAppend2, opFragment, opLong} {
				for _, second := range []opKind{opAppend2, opLong} {
					n++
					during++
					seq := []opKind{first, second}
					if m := runCaseHold(t, d, seq, h); m != "" {
						run.Violation("C20:during-initial-read:"+opNames[first], c20case{Init: d.Name, Ops: []string{opNames[first], opNames[second]}, Hold: h},
							fmt.Sprintf("initial directory %q, consumer stalled after %d lines, %s (+ its event) applied meanwhile, then %s: %s", d.Name, h-1, opNames[first], opNames[second], m))
					}
				}
			}
		}
	}
	for _, seq := range [][]opKind{{opAppend2, opHugeAppend}, {opFragment, opHugeAppend, opRotate, opAppend2}} {
		n++
		if m := runCase(t, small[0], seq); m != "" {
			report(small[0], seq, m)
		}
	}
	for _, d := range big {
		seqs := [][]opKind{nil, {opAppend2}, {opRotate, opAppend2}}
		if strings.HasPrefix(d.Name, "pair-") {
			seqs = seqs[:1]
		}
		for _, seq := range seqs {
			n++
			if m := runCase(t, d, seq); m != "" {
				report(d, seq, m)
			}
		}
		samples = append(samples, map[string]any{"init": d.Name, "files": len(d.Files)})
	}
	if len(samples) > 8 {
		samples = samples[:8]
	}
	cov := mc.Coverage{Level: "model_checking", States: n, Transitions: n * depth, Traces: n, Evaluations: n, Distinct: withRotation, Exhaustive: complete, Samples: samples,
		Rule:  fmt.Sprintf("the real LogDirReader loop in a synctest bubble over an in-memory file system: every sequence of <=%d operations over {append 2 lines, append a fragment, append a 5 kB fragment, complete it, append a 5 kB line, rotate (rename+create chain), truncate then write, remove then create, append a line exactly as long as the last unterminated tail} from %d small initial directories (and again, one operation shorter, on a file system whose reads return at most 7 bytes), each change followed by its fsnotify events one at a time with quiescence in between; plus %d initial directories with 0..12 and sparse (10,100,999) rotated files x {start only, append, rotate+append}; plus, for every small directory, the consumer of Lines() stalled after each number of initial lines while the live file is appended to (event delivered during the initial read), then resumed and flushed by a later append. Oracle: strings from Lines() == reference list. distinct_nontrivial = sequences containing a rotation or truncation", depth, len(small), len(big)),
		Extra: map[string]any{"max_ops": depth, "initial_dirs": len(small) + len(big), "changes_during_initial_read": during}}
	cov.Assumptions = []string{"testing/synctest semantics; in-memory file system with read-through handles; events delivered one at a time (the property's proviso)"}
	return run.Finish(cov)
}
