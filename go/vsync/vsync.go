// Package vsync is a drop-in replacement for the parts of package sync the
// repository uses. The overlay generator rewrites the sync import in the code
// under test to this package. With no controller installed every type behaves
// exactly like the real one (it IS the real one underneath); with a controller
// (the cooperative scheduler of package sched) Lock/RLock/Wait become
// scheduling points and mutual exclusion is enforced by the scheduler, so that
// deleting a Lock() in the code under test deletes both the point and the
// exclusion.
package vsync

import (
	"runtime"
	"sync"
	"time"
)

type (
	Locker = sync.Locker
	Pool   = sync.Pool
	Cond   = sync.Cond
	Once   = sync.Once
)

func NewCond(l Locker) *Cond { return sync.NewCond(l) }

// Controller is implemented by the scheduler.
type Controller interface {
	// Acquire blocks (cooperatively) until can() is true, then returns with the
	// calling thread still running. what names the object for traces.
	Acquire(obj any, what string, can func() bool)
	// Managed reports whether the calling goroutine is a scheduler thread.
	Managed() bool
}

// Ctl is the installed controller (nil = behave like package sync).
var Ctl Controller

func managed() bool { return Ctl != nil && Ctl.Managed() }

func always() bool { return true }

// Point is a scheduling point for a visible operation that is not a lock operation (the harness calls it
// before each write to the shared output). No-op outside the scheduler.
func Point(obj any, what string) {
	if managed() {
		Ctl.Acquire(obj, what, always)
	}
}

// YieldAfterUnlock makes every release under the scheduler a scheduling point as well: whatever a thread does
// between releasing a lock and its next acquisition (atomics, unsynchronised accesses, publishing a value computed
// under the lock) can then be overtaken by the other threads. It multiplies the schedule space, so only harnesses
// with small programs switch it on (phealth); the tracker programs rely on Point at the output writes instead.
var YieldAfterUnlock bool

func afterUnlock(obj any) {
	if YieldAfterUnlock {
		Ctl.Acquire(obj, "AfterUnlock", always)
	}
}

// Mutex mirrors sync.Mutex.
type Mutex struct {
	real sync.Mutex
	held bool
}

// LockTimeout bounds how long an unmanaged Lock may wait before it is reported
// as a (self-)deadlock by panicking; the harnesses recover and report it. The
// code under test never holds these locks across blocking operations, so a
// wait of this length means the lock will never be released.
var LockTimeout = 20 * time.Second

// ErrDeadlock is the panic value of a Lock that timed out.
const ErrDeadlock = "vsync: lock not acquired within the timeout: deadlock (a goroutine re-locks a mutex it holds, or a lock is never released)"

func lockOrPanic(try func() bool, lock func()) {
	if try() {
		return
	}
	if LockTimeout <= 0 {
		lock()
		return
	}
	deadline := time.Now().Add(LockTimeout)
	for i := 0; ; i++ {
		if try() {
			return
		}
		if i < 100 {
			runtime.Gosched()
		} else {
			time.Sleep(50 * time.Microsecond)
		}
		if time.Now().After(deadline) {
			panic(ErrDeadlock)
		}
	}
}

func (m *Mutex) Lock() {
	if managed() {
		Ctl.Acquire(m, "Lock", func() bool { return !m.held })
		m.held = true
		return
	}
	lockOrPanic(m.real.TryLock, m.real.Lock)
}

func (m *Mutex) TryLock() bool {
	if managed() {
		if m.held {
			return false
		}
		m.held = true
		return true
	}
	return m.real.TryLock()
}

func (m *Mutex) Unlock() {
	if managed() {
		if !m.held {
			panic("vsync: unlock of unlocked mutex")
		}
		m.held = false
		// (by default a release is not a scheduling point of its own: the next visible step of the thread -
		// its next lock acquisition or its next write to the shared output, see Point - is one)
		afterUnlock(m)
		return
	}
	m.real.Unlock()
}

// Held is for state dumps.
func (m *Mutex) Held() bool { return m.held }

// RWMutex mirrors sync.RWMutex.
type RWMutex struct {
	real    sync.RWMutex
	writer  bool
	readers int
	// pending counts writers that have called Lock and are waiting: like the real RWMutex ("a blocked Lock call
	// excludes new readers from acquiring the lock"), they keep new readers out - which is what turns a recursive
	// read lock into a deadlock as soon as a writer arrives between the two RLock calls.
	pending int
}

func (m *RWMutex) Lock() {
	if managed() {
		m.pending++
		Ctl.Acquire(m, "Lock", func() bool { return !m.writer && m.readers == 0 })
		m.pending--
		m.writer = true
		return
	}
	lockOrPanic(m.real.TryLock, m.real.Lock)
}

func (m *RWMutex) Unlock() {
	if managed() {
		if !m.writer {
			panic("vsync: unlock of unlocked rwmutex")
		}
		m.writer = false
		afterUnlock(m)
		return
	}
	m.real.Unlock()
}

func (m *RWMutex) RLock() {
	if managed() {
		Ctl.Acquire(m, "RLock", func() bool { return !m.writer && m.pending == 0 })
		m.readers++
		return
	}
	lockOrPanic(m.real.TryRLock, m.real.RLock)
}

func (m *RWMutex) RUnlock() {
	if managed() {
		if m.readers <= 0 {
			panic("vsync: runlock of unlocked rwmutex")
		}
		m.readers--
		afterUnlock(m)
		return
	}
	m.real.RUnlock()
}

func (m *RWMutex) TryLock() bool {
	if managed() {
		if m.writer || m.readers != 0 {
			return false
		}
		m.writer = true
		return true
	}
	return m.real.TryLock()
}

func (m *RWMutex) TryRLock() bool {
	if managed() {
		if m.writer || m.pending > 0 {
			return false
		}
		m.readers++
		return true
	}
	return m.real.TryRLock()
}

func (m *RWMutex) RLocker() Locker { return (*rlocker)(m) }

type rlocker RWMutex

func (r *rlocker) Lock()   { (*RWMutex)(r).RLock() }
func (r *rlocker) Unlock() { (*RWMutex)(r).RUnlock() }

// WaitGroup mirrors sync.WaitGroup.
type WaitGroup struct {
	real sync.WaitGroup
	n    int
}

func (w *WaitGroup) Add(d int) {
	if managed() {
		w.n += d
		if w.n < 0 {
			panic("vsync: negative WaitGroup counter")
		}
		return
	}
	w.real.Add(d)
}

func (w *WaitGroup) Done() { w.Add(-1) }

func (w *WaitGroup) Wait() {
	if managed() {
		Ctl.Acquire(w, "Wait", func() bool { return w.n == 0 })
		return
	}
	w.real.Wait()
}

func OnceFunc(f func()) func()                                 { return sync.OnceFunc(f) }
func OnceValue[T any](f func() T) func() T                     { return sync.OnceValue(f) }
func OnceValues[T1, T2 any](f func() (T1, T2)) func() (T1, T2) { return sync.OnceValues(f) }

// Map mirrors sync.Map. Underneath it IS a sync.Map; under the scheduler every operation is a scheduling point,
// and Range is a scheduling point before EACH visit: it walks the keys that existed when it started (in order of
// first insertion) and reports for each the value current at the time of the visit - so a Store that lands between
// two visits is seen by the later visit only, which is exactly the latitude sync.Map.Range documents ("does not
// necessarily correspond to any consistent snapshot").
type Map struct {
	real sync.Map
	mu   sync.Mutex
	keys []any
	seen map[any]struct{}
}

func (m *Map) note(key any) {
	m.mu.Lock()
	if m.seen == nil {
		m.seen = map[any]struct{}{}
	}
	if _, ok := m.seen[key]; !ok {
		m.seen[key] = struct{}{}
		m.keys = append(m.keys, key)
	}
	m.mu.Unlock()
}

func (m *Map) Load(key any) (any, bool) { Point(m, "Map.Load"); return m.real.Load(key) }
func (m *Map) Store(key, value any)     { Point(m, "Map.Store"); m.note(key); m.real.Store(key, value) }
func (m *Map) Delete(key any)           { Point(m, "Map.Delete"); m.real.Delete(key) }
func (m *Map) Clear()                   { Point(m, "Map.Clear"); m.real.Clear() }
func (m *Map) LoadOrStore(key, value any) (any, bool) {
	Point(m, "Map.LoadOrStore")
	m.note(key)
	return m.real.LoadOrStore(key, value)
}
func (m *Map) LoadAndDelete(key any) (any, bool) {
	Point(m, "Map.LoadAndDelete")
	return m.real.LoadAndDelete(key)
}
func (m *Map) Swap(key, value any) (any, bool) {
	Point(m, "Map.Swap")
	m.note(key)
	return m.real.Swap(key, value)
}
func (m *Map) CompareAndSwap(key, old, new any) bool {
	Point(m, "Map.CompareAndSwap")
	return m.real.CompareAndSwap(key, old, new)
}
func (m *Map) CompareAndDelete(key, old any) bool {
	Point(m, "Map.CompareAndDelete")
	return m.real.CompareAndDelete(key, old)
}

func (m *Map) Range(f func(key, value any) bool) {
	if !managed() {
		m.real.Range(f)
		return
	}
	m.mu.Lock()
	keys := append([]any{}, m.keys...)
	m.mu.Unlock()
	for _, k := range keys {
		Point(m, "Map.Range visit")
		if v, ok := m.real.Load(k); ok {
			if !f(k, v) {
				return
			}
		}
	}
}
