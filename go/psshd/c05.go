package psshd

import (
	"context"
	"encoding/json"
	"errors"
	"fmt"
	"strconv"
	"strings"
	"testing"
	"testing/synctest"
	"time"

	"github.com/metal-toolbox/auditevent"
	"github.com/prometheus/client_golang/prometheus"

	"github.com/metal-toolbox/audito-maldito/internal/common"
	"github.com/metal-toolbox/audito-maldito/internal/metrics"
	"github.com/metal-toolbox/audito-maldito/internal/verif/mc"
	"github.com/metal-toolbox/audito-maldito/processors/sshd"
)

// C05: for every accepted-authentication line x pid token, every order of
// {receiver ready before the line, after it, never (cancel instead), encoder
// fails} is delivered to the real ProcessSshdLogEntry running in its own
// goroutine inside a synctest bubble, with the harness as the only receiver
// of the unbuffered logins channel.

type c05result struct {
	order string
	msg   string
}

// c05obs is what C19 reads off one C05 execution: the events written and the movement of the logins counter.
type c05obs struct {
	Events  []auditevent.AuditEvent
	Metrics map[string]float64
}

func oneC05(t *testing.T, x Exp, pid string, order string) (msg string) {
	return oneC05obs(t, x, pid, order, nil)
}

func oneC05obs(t *testing.T, x Exp, pid string, order string, out *c05obs) (msg string) {
	synctest.Test(t, func(t *testing.T) {
		rec := &recorder{fail: strings.HasSuffix(order, "encoder-fails"), kind: len(x.Line) + len(pid)} // error kinds in rotation
		ew := auditevent.NewAuditEventWriter(rec)
		logins := make(chan common.RemoteUserLogin) // unbuffered, like cmd/namedpipe.go
		reg := prometheus.NewRegistry()
		mp := metrics.NewPrometheusMetricsProviderForRegisterer(reg)
		if out != nil {
			defer func() {
				out.Events = append([]auditevent.AuditEvent{}, rec.copies...)
				out.Metrics = (&rig{reg: reg}).counters()
			}()
		}
		proc := sshd.NewSshdProcessor(context.Background(), logins, nodeName, machineID, ew, mp)
		ctx, cancel := context.WithCancel(context.Background())
		defer cancel()

		type recvd struct {
			l        common.RemoteUserLogin
			nEvents  int
			firstPtr *auditevent.AuditEvent
		}
		got := make(chan recvd, 4)
		stopRecv := make(chan struct{})
		startReceiver := func() {
			go func() {
				for {
					select {
					case l := <-logins:
						r := recvd{l: l, nEvents: len(rec.ptrs)}
						if len(rec.ptrs) > 0 {
							r.firstPtr = rec.ptrs[0]
						}
						got <- r
					case <-stopRecv:
						return
					}
				}
			}()
		}
		var ret error
		returned := false
		done := make(chan struct{})
		process := func() {
			go func() {
				ret = proc.ProcessSshdLogEntry(ctx, sshd.SshdLogEntry{PID: pid, Message: x.Line})
				returned = true
				close(done)
			}()
		}
		fail := func(f string, a ...any) {
			if msg == "" {
				msg = fmt.Sprintf(f, a...)
			}
		}
		wantPID, _ := strconv.Atoi(pid)
		checkLogin := func(r recvd) {
			if r.nEvents != 1 {
				fail("when the login was received %d events had been written, want exactly 1 (write before hand-off)", r.nEvents)
				return
			}
			if r.l.Source != r.firstPtr {
				fail("the forwarded login's identity is not the event that was written")
			}
			if rec.copies[0].Outcome != "succeeded" || rec.copies[0].Type != "UserLogin" {
				fail("the written event is %s/%s", rec.copies[0].Type, rec.copies[0].Outcome)
			}
			if r.l.PID != wantPID {
				fail("login pid %d, line pid %q", r.l.PID, pid)
			}
			if r.l.CredUserID != x.Cred {
				fail("login credential user id %q, want %q", r.l.CredUserID, x.Cred)
			}
			if r.l.Validate() != nil && x.Cred != "" { // (an empty certificate key ID is forwarded as it is; it does not validate downstream)
				fail("forwarded login does not validate: %v", r.l.Validate())
			}
		}
		switch order {
		case "receiver-first", "receiver-first-after-other-lines":
			startReceiver()
			synctest.Wait()
			if order == "receiver-first-after-other-lines" {
				// the same sshd process has logged other things before (multi-step authentication, bookkeeping):
				// they write nothing, forward nothing and leave nothing behind
				for _, l := range otherSshdLines {
					if err := proc.ProcessSshdLogEntry(ctx, sshd.SshdLogEntry{PID: pid, Message: l}); err != nil {
						fail("line %q returned %v", l, err)
					}
				}
				synctest.Wait()
				select {
				case <-got:
					fail("a login was forwarded for a line that reports no accepted authentication")
				default:
				}
				if len(rec.ptrs) != 0 {
					fail("%d events written for lines that report nothing the daemon records", len(rec.ptrs))
				}
			}
			process()
			synctest.Wait()
			if !returned || ret != nil {
				fail("with a ready receiver the call did not return nil (returned=%v err=%v)", returned, ret)
			}
			select {
			case r := <-got:
				if x.Login {
					checkLogin(r)
					// the correlator keeps the login for the whole session: after the same processor has handled
					// other lines (other keys, other certificates, an invalid certificate) the event it carries is
					// still, byte for byte, the event that was written
					written, _ := json.Marshal(rec.copies[0])
					later := []string{
						"Accepted publickey for zed from 10.9.9.9 port 999 ssh2: RSA-CERT SHA256:ZZZZZZZZZZZZZZZZZZZZZZZZZZZZZZZZZZZZZZZZZZZ ID another-key-id-that-is-rather-long (serial 987654321) CA RSA SHA256:YYYYYYYYYYYYYYYYYYYYYYYYYYYYYYYYYYYYYYYYYYY",
						"Certificate invalid: name is not a listed principal",
						"Accepted publickey for zed from 10.9.9.9 port 999 ssh2: ED25519 SHA256:XXXXXXXXXXXXXXXXXXXXXXXXXXXXXXXXXXXXXXXXXXX",
					}
					if out != nil {
						later = nil // (C19 reads the counters of this one line: no further lines then)
					}
					for i, l := range later {
						_ = proc.ProcessSshdLogEntry(ctx, sshd.SshdLogEntry{PID: strconv.Itoa(900 + i), Message: l})
						synctest.Wait()
					}
					held, err := json.Marshal(r.l.Source)
					if err != nil {
						fail("the event carried by the forwarded login can no longer be encoded after later lines were processed: %v", err)
					} else if string(held) != string(written) {
						fail("after later lines were processed the forwarded login carries\n%s\nbut the event written for it was\n%s", held, written)
					}
					for len(got) > 0 {
						<-got
					}
				} else {
					fail("a login was forwarded for a line that reports no accepted authentication")
				}
			default:
				if x.Login {
					fail("no login was forwarded")
				}
			}
			select {
			case <-got:
				fail("a second login was forwarded")
			default:
			}
		case "receiver-late":
			process()
			synctest.Wait()
			if x.Login {
				if returned {
					fail("the call returned (err=%v) before anybody received the login", ret)
				}
				if len(rec.ptrs) != 1 {
					fail("blocked on the hand-off with %d events written, want 1", len(rec.ptrs))
				}
				time.Sleep(6 * time.Hour) // the receiver is VERY late; the login must still be waiting for it
				synctest.Wait()
				if returned {
					fail("the call gave up (err=%v) after waiting for the correlator although its context was never cancelled", ret)
				}
			}
			startReceiver()
			synctest.Wait()
			if !returned || ret != nil {
				fail("after the receiver appeared the call did not return nil (returned=%v err=%v)", returned, ret)
			}
			select {
			case r := <-got:
				if x.Login {
					checkLogin(r)
				} else {
					fail("a login was forwarded for a line that reports no accepted authentication")
				}
			default:
				if x.Login {
					fail("no login was forwarded")
				}
			}
			select {
			case <-got:
				fail("a second login was forwarded")
			default:
			}
		case "never-cancel":
			process()
			synctest.Wait()
			if x.Login && returned {
				fail("the call returned (err=%v) although nobody received the login", ret)
			}
			// the correlator may be busy for a long time (slow output, stalled disk): waiting is not cancellation
			time.Sleep(6 * time.Hour)
			synctest.Wait()
			if x.Login && returned {
				fail("the call gave up (err=%v) after waiting for the correlator although its context was never cancelled", ret)
			}
			cancel()
			synctest.Wait()
			if !returned {
				fail("still blocked on the hand-off after its context was cancelled")
			} else if ret != nil {
				fail("returned %v after cancellation, want nil", ret)
			}
			startReceiver()
			synctest.Wait()
			select {
			case <-got:
				fail("a login was forwarded after the call had returned")
			default:
			}
		case "cancelled-before":
			// the context is already cancelled when the line is processed (e.g. the second of two
			// buffered lines): the event must still be written; only the hand-off may be skipped
			cancel()
			process()
			synctest.Wait()
			if !returned {
				fail("did not return although its context was already cancelled")
			} else if ret != nil {
				fail("returned %v, want nil", ret)
			}
			if len(rec.ptrs) != 1 || rec.copies[0].Outcome != "succeeded" {
				fail("%d events written for an accepted login processed under a cancelled context, want the one succeeded UserLogin (only the hand-off depends on the context)", len(rec.ptrs))
			}
			startReceiver()
			synctest.Wait()
			select {
			case <-got:
				fail("a login was forwarded after the call had returned")
			default:
			}
		case "encoder-fails":
			startReceiver()
			synctest.Wait()
			process()
			synctest.Wait()
			if !returned {
				fail("did not return when the event could not be written")
			} else if !hasKeyword(x.Line) {
				if ret != nil {
					fail("a line without a recognised keyword returned %v", ret)
				}
			} else if ret == nil || !errors.Is(ret, errInjected) {
				fail("write failure returned as %v, want an error wrapping the injected one", ret)
			}
			select {
			case <-got:
				fail("a login was forwarded although the event could not be written")
			default:
			}
		case "cancelled-before+encoder-fails":
			// both at once: the write fails while the per-call context is already cancelled and a receiver is
			// ready. The error is still returned (cancellation excuses only the hand-off) and nothing is forwarded.
			cancel()
			startReceiver()
			synctest.Wait()
			process()
			synctest.Wait()
			if !returned {
				fail("did not return when the event could not be written under a cancelled context")
			} else if !hasKeyword(x.Line) {
				if ret != nil {
					fail("a line without a recognised keyword returned %v", ret)
				}
			} else if ret == nil || !errors.Is(ret, errInjected) {
				fail("write failure under an already cancelled context returned as %v, want an error wrapping the injected one", ret)
			}
			select {
			case <-got:
				fail("a login was forwarded although the event could not be written")
			default:
			}
		}
		// release whatever is still blocked so the bubble can end
		cancel()
		close(stopRecv)
		synctest.Wait()
		if !returned {
			select {
			case <-logins:
			default:
			}
			synctest.Wait()
		}
	})
	return msg
}

func runC05(t *testing.T, run *mc.Run) int {
	s := fieldSets(false)
	if !run.Thorough() {
		s.users, s.addrs, s.keytypes = s.users[:2], s.addrs[:2], s.keytypes[:2]
	}
	orders := []string{"receiver-first", "receiver-first-after-other-lines", "receiver-late", "never-cancel", "cancelled-before", "encoder-fails", "cancelled-before+encoder-fails"}
	var sm sampler
	n, withLogin := 0, 0
	complete := true
	if run.Replay != "" {
		var rp struct {
			Pid, Line, Order, Cred string
			Login                  bool
		}
		if _, err := mc.LoadReplay(run.Replay, &rp); err != nil {
			return 2
		}
		m := oneC05(t, Exp{Line: rp.Line, Login: rp.Login, Cred: rp.Cred}, rp.Pid, rp.Order)
		fmt.Println("result:", m)
		if m != "" {
			fmt.Printf("VIOLATION property=C05 replay=%s\n", run.Replay)
			return 1
		}
		return 0
	}
	each := func(emit func(Exp)) {
		forms(s, emit)
		// failure lines whose client- or resolver-chosen text is itself a complete
		// accepted-authentication message: they must never forward a login
		for _, acc := range []string{
			"Accepted password for root from 9.9.9.9 port 22 ssh2",
			"Accepted publickey for root from 9.9.9.9 port 22 ssh2: RSA SHA256:abc",
			"Accepted publickey for root from 9.9.9.9 port 22 ssh2: ED25519-CERT SHA256:abc ID k (serial 1) CA ED25519 SHA256:def",
		} {
			for _, f := range []struct{ form, line string }{
				{"invalid-user", "Invalid user " + acc + " from 6.6.6.6 port 4444"},
				{"failed-password", "Failed password for invalid user " + acc + " from 6.6.6.6 port 4444 ssh2"},
				{"max-auth-attempts", "maximum authentication attempts exceeded for invalid user " + acc + " from 6.6.6.6 port 4444 ssh2"},
				{"not-in-allowusers", "User " + acc + " from 6.6.6.6 not allowed because not listed in AllowUsers"},
				{"certificate-invalid", "Certificate invalid: " + acc},
				{"nasty-ptr", "Nasty PTR record \"" + acc + "\" is set up for 6.6.6.6, ignoring"},
				{"bad-owner-or-modes", "Authentication refused for " + acc + ": bad owner or modes for /x"},
				{"junk-prefix", "sshd[1]: " + acc},
			} {
				emit(Exp{Form: "embedded-accept/" + f.form, Line: f.line, Login: false, Outcome: "failed"})
			}
		}
	}
	each(func(x Exp) {
		if run.Expired() {
			complete = false
			return
		}
		pids := pidTokens
		if !x.Login {
			pids = pidTokens[:1]
		}
		for _, pid := range pids {
			for _, ord := range orders {
				if !x.Login && (ord == "never-cancel" || ord == "cancelled-before") {
					continue
				}
				n++
				if x.Login {
					withLogin++
				}
				sm.add(x.Form+"/"+ord, x.Line)
				if m := oneC05(t, x, pid, ord); m != "" {
					run.Violation("C05:"+x.Form+":"+ord+":"+firstWords(m, 3), map[string]any{"Pid": pid, "Line": x.Line, "Order": ord, "Login": x.Login, "Cred": x.Cred},
						fmt.Sprintf("line %q pid %q, order %s: %s", x.Line, pid, ord, m))
				}
			}
		}
	})
	cov := mc.Coverage{Level: "model_checking", States: len(sm.forms), Transitions: n, Traces: n, Evaluations: n, Distinct: withLogin, Exhaustive: complete, Samples: sm.samples,
		Rule:  "for every line of the (reduced) C06 product x pid tokens {1,25007,4194304,007}: every environment order {receiver ready before the line; the same after 7 other real sshd lines of that process (Partial publickey ..., Postponed ..., Connection ...); receiver appears after the call blocked; no receiver, context cancelled while blocked; context cancelled before the line; encoder fails; encoder fails under an already cancelled context} delivered to the real ProcessSshdLogEntry in a synctest bubble (quiescence = every goroutine durably blocked), unbuffered logins channel as in cmd/namedpipe.go. states = distinct (form, order) cells; distinct_nontrivial = executions of accepted-authentication lines",
		Extra: map[string]any{"cells": sm.forms, "orders": orders}}
	cov.Assumptions = []string{"testing/synctest durable-blocking semantics", "select with both cancellation and a ready receiver is left unjudged (the statement says 'unless its context is cancelled')"}
	return run.Finish(cov)
}
