//go:debug asynctimerchan=0
package psshd

import (
	"fmt"
	"os"
	"testing"

	"github.com/metal-toolbox/audito-maldito/internal/verif/mc"
)

var exitCode = 2

func TestMain(m *testing.M) {
	if os.Getenv("VERIF_PROP") == "" {
		os.Exit(m.Run())
	}
	m.Run()
	os.Exit(exitCode)
}

func TestCheck(t *testing.T) {
	prop := os.Getenv("VERIF_PROP")
	if prop == "" {
		t.Skip()
	}
	run := mc.Start(prop)
	switch prop {
	case "C06":
		exitCode = runC06(run)
	case "C07":
		exitCode = runC07(run)
	case "C11", "C19":
		exitCode = runGarbage(t, run, prop)
	case "C17":
		exitCode = runC17(run)
	case "C05":
		exitCode = runC05(t, run)
	default:
		fmt.Println("unknown property", prop)
	}
}
