// needs:race (C19: free-running pass next to the audit.log watcher's use of the shared metrics provider)
package psshd
