package psshd
