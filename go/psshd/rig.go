package psshd

import (
	"context"
	"encoding/json"
	"errors"
	"fmt"
	"github.com/metal-toolbox/audito-maldito/internal/verif/mc"
	"io"
	"sort"
	"strings"
	"syscall"
	"time"

	"github.com/metal-toolbox/auditevent"
	"github.com/prometheus/client_golang/prometheus"

	"github.com/metal-toolbox/audito-maldito/ingesters/syslog"
	"github.com/metal-toolbox/audito-maldito/internal/common"
	"github.com/metal-toolbox/audito-maldito/internal/metrics"
	"github.com/metal-toolbox/audito-maldito/processors/sshd"
)

func init() { sshd.SetLogger(mc.DebugLogger()) }

const (
	nodeName  = "node-under-test"
	machineID = "machine-under-test"
)

var errInjected = errors.New("injected write failure")

// dressedErr is the injected failure dressed up as what a real sink might report: it still IS errInjected and it
// also matches (errors.Is) a sentinel such as context.Canceled or io.EOF. Which error the output reports must
// not decide whether it is reported.
type dressedErr struct{ as error }

func (d dressedErr) Error() string   { return "sink: " + d.as.Error() + " (" + errInjected.Error() + ")" }
func (d dressedErr) Is(t error) bool { return t == errInjected || t == d.as }
func (d dressedErr) Unwrap() error   { return d.as }

var failKinds = []error{errInjected, dressedErr{context.Canceled}, dressedErr{io.EOF}, dressedErr{context.DeadlineExceeded}, dressedErr{syscall.EINTR}, dressedErr{syscall.EAGAIN}}

// recorder is the auditevent.EventEncoder behind the real EventWriter: it
// keeps the pointer it was given (C05 compares identity) and a deep copy with
// the exact strings (JSON would coerce invalid UTF-8).
type recorder struct {
	ptrs   []*auditevent.AuditEvent
	copies []auditevent.AuditEvent
	other  []string
	fail   bool
	kind   int // which of failKinds a failing Encode returns
	failN  int // fail the next failN calls (a transient fault), then succeed
}

func (r *recorder) Encode(v any) error {
	if r.fail {
		return failKinds[r.kind%len(failKinds)]
	}
	if r.failN > 0 {
		r.failN--
		return failKinds[r.kind%len(failKinds)]
	}
	e, ok := v.(*auditevent.AuditEvent)
	if !ok || e == nil {
		r.other = append(r.other, fmt.Sprintf("%T", v))
		return nil
	}
	c := *e
	c.Subjects = cloneSS(e.Subjects)
	c.Target = cloneSS(e.Target)
	c.Source.Extra = cloneSA(e.Source.Extra)
	c.Metadata.Extra = cloneSA(e.Metadata.Extra)
	if e.Data != nil {
		d := append(json.RawMessage{}, (*e.Data)...)
		c.Data = &d
	}
	r.ptrs = append(r.ptrs, e)
	r.copies = append(r.copies, c)
	return nil
}

func cloneSS(m map[string]string) map[string]string {
	if m == nil {
		return nil
	}
	c := make(map[string]string, len(m))
	for k, v := range m {
		c[k] = v
	}
	return c
}

func cloneSA(m map[string]any) map[string]any {
	if m == nil {
		return nil
	}
	c := make(map[string]any, len(m))
	for k, v := range m {
		c[k] = v
	}
	return c
}

// rig is one sshd processor with everything around it observable.
type rig struct {
	rec    *recorder
	ew     *auditevent.EventWriter
	reg    *prometheus.Registry
	logins chan common.RemoteUserLogin
	proc   sshd.SshdProcessor
	ing    *syslog.SyslogIngester

	noMetrics bool // skip the registry Gather() before/after each line
}

func newRig(loginBuf int) *rig {
	r := &rig{rec: &recorder{}, reg: prometheus.NewRegistry(), logins: make(chan common.RemoteUserLogin, loginBuf)}
	r.ew = auditevent.NewAuditEventWriter(r.rec)
	mp := metrics.NewPrometheusMetricsProviderForRegisterer(r.reg)
	r.proc = sshd.NewSshdProcessor(context.Background(), r.logins, nodeName, machineID, r.ew, mp)
	ing := syslog.NewSyslogIngester("", r.proc, namedpipeZero())
	r.ing = &ing
	return r
}

// counters returns remote_logins_total by "method/outcome".
func (r *rig) counters() map[string]float64 {
	out := map[string]float64{}
	mfs, _ := r.reg.Gather()
	for _, mf := range mfs {
		if mf.GetName() != "audito_maldito_remote_logins_total" {
			continue
		}
		for _, m := range mf.GetMetric() {
			var method, outcome string
			for _, l := range m.GetLabel() {
				if l.GetName() == "method" {
					method = l.GetValue()
				}
				if l.GetName() == "outcome" {
					outcome = l.GetValue()
				}
			}
			out[method+"/"+outcome] = m.GetCounter().GetValue()
		}
	}
	return out
}

func delta(a, b map[string]float64) map[string]float64 {
	d := map[string]float64{}
	for k, v := range b {
		if v-a[k] != 0 {
			d[k] = v - a[k]
		}
	}
	return d
}

func renderDelta(d map[string]float64) string {
	var ks []string
	for k, v := range d {
		ks = append(ks, fmt.Sprintf("%s+%g", k, v))
	}
	sort.Strings(ks)
	return strings.Join(ks, ",")
}

// obs is everything observable about processing one line.
type obs struct {
	Events  []auditevent.AuditEvent
	Raw     []string
	Ptrs    []*auditevent.AuditEvent
	Logins  []common.RemoteUserLogin
	Err     error
	Panic   any
	Metrics map[string]float64
	T0, T1  time.Time
}

// run processes one entry, either directly (ProcessSshdLogEntry) or framed
// through the syslog ingester's callback.
func (r *rig) run(direct bool, pid, msg, framed string) (o obs) {
	var before map[string]float64
	if !r.noMetrics {
		before = r.counters()
	}
	r.rec.ptrs, r.rec.copies, r.rec.other = nil, nil, nil
	n0 := 0
	o.T0 = time.Now()
	// logins are taken off the channel while the call runs: however many the code under test hands over (it should
	// be at most one), the call is never left blocked on the channel and the check never hangs
	stop, drained := make(chan struct{}), make(chan struct{})
	go func() {
		defer close(drained)
		for {
			select {
			case l := <-r.logins:
				o.Logins = append(o.Logins, l)
			case <-stop:
				for {
					select {
					case l := <-r.logins:
						o.Logins = append(o.Logins, l)
					default:
						return
					}
				}
			}
		}
	}()
	func() {
		defer func() {
			if p := recover(); p != nil {
				o.Panic = p
			}
		}()
		if direct {
			o.Err = r.proc.ProcessSshdLogEntry(context.Background(), sshd.SshdLogEntry{PID: pid, Message: msg})
		} else {
			o.Err = r.ing.Process(context.Background(), framed)
		}
	}()
	o.T1 = time.Now()
	close(stop)
	<-drained
	for i, ev := range r.rec.copies[n0:] {
		o.Events = append(o.Events, ev)
		o.Ptrs = append(o.Ptrs, r.rec.ptrs[n0+i])
		j, _ := json.Marshal(ev)
		o.Raw = append(o.Raw, string(j))
	}
	for _, x := range r.rec.other {
		o.Raw = append(o.Raw, "NOT-AN-EVENT:"+x)
	}
	if !r.noMetrics {
		o.Metrics = delta(before, r.counters())
	}
	return o
}

// canon renders what the comparison between two paths looks at (events without
// their wall-clock timestamp, forwarded logins, counter deltas, error).
func (o obs) canon() string {
	var b strings.Builder
	for _, e := range o.Events {
		e.LoggedAt = time.Time{}
		e.Metadata.AuditID = ""
		j, _ := json.Marshal(e)
		b.Write(j)
		b.WriteString("\n")
	}
	for _, l := range o.Logins {
		src := ""
		if l.Source != nil {
			c := *l.Source
			c.LoggedAt = time.Time{}
			c.Metadata.AuditID = ""
			j, _ := json.Marshal(c)
			src = string(j)
		}
		fmt.Fprintf(&b, "login pid=%d cred=%q src=%s\n", l.PID, l.CredUserID, src)
	}
	fmt.Fprintf(&b, "metrics %s err=%v panic=%v\n", renderDelta(o.Metrics), o.Err, o.Panic)
	return b.String()
}

func dataMap(e *auditevent.AuditEvent) (map[string]string, bool) {
	if e.Data == nil {
		return nil, true
	}
	var m map[string]string
	if err := json.Unmarshal(*e.Data, &m); err != nil {
		return nil, false
	}
	return m, true
}

func eqMap(a, b map[string]string) bool {
	if len(a) != len(b) {
		return false
	}
	for k, v := range a {
		if w, ok := b[k]; !ok || w != v {
			return false
		}
	}
	return true
}

// hasAll reports whether got contains every key of want with the same value.
// The statement fixes the values of the listed fields; additional keys are
// not forbidden, so they are not judged.
func hasAll(got, want map[string]string) bool {
	for k, v := range want {
		if w, ok := got[k]; !ok || w != v {
			return false
		}
	}
	return true
}

// checkC06 compares one observation with the expectation built by the generator.
func checkC06(x Exp, pid string, o obs) string {
	if o.Panic != nil {
		return fmt.Sprintf("panic: %v", o.Panic)
	}
	if o.Err != nil {
		return fmt.Sprintf("error returned: %v", o.Err)
	}
	if len(o.Events) != 1 {
		return fmt.Sprintf("%d events emitted, want exactly 1", len(o.Events))
	}
	e := o.Events[0]
	if e.Type != "UserLogin" || e.Component != "sshd" {
		return fmt.Sprintf("type/component = %q/%q", e.Type, e.Component)
	}
	if e.Outcome != x.Outcome {
		return fmt.Sprintf("outcome %q, want %q", e.Outcome, x.Outcome)
	}
	wantSubj := map[string]string{"loggedAs": x.LoggedAs, "userID": x.UserID, "pid": pid}
	for k, v := range x.Subj {
		wantSubj[k] = v
	}
	got := map[string]string{}
	for k, v := range e.Subjects {
		got[k] = v
	}
	if x.AnyUser {
		delete(wantSubj, "loggedAs")
		if _, ok := got["loggedAs"]; !ok {
			return "no loggedAs subject"
		}
		delete(got, "loggedAs")
	}
	if !hasAll(got, wantSubj) {
		return fmt.Sprintf("subjects %v, want %v", e.Subjects, wantSubj)
	}
	if e.Source.Type != "IP" || e.Source.Value != x.Source {
		return fmt.Sprintf("source %q/%q, want IP/%q", e.Source.Type, e.Source.Value, x.Source)
	}
	wantExtra := map[string]string{}
	if x.HasPort {
		wantExtra["port"] = x.Port
	}
	if x.DNS != "" {
		wantExtra["dns"] = x.DNS
	}
	gotExtra := map[string]string{}
	for k, v := range e.Source.Extra {
		gotExtra[k] = fmt.Sprint(v)
	}
	if !hasAll(gotExtra, wantExtra) {
		return fmt.Sprintf("source.extra %v, want %v", e.Source.Extra, wantExtra)
	}
	if !hasAll(e.Target, map[string]string{"host": nodeName, "machine-id": machineID}) {
		return fmt.Sprintf("target %v", e.Target)
	}
	dm, ok := dataMap(&e)
	if !ok || !hasAll(dm, x.Data) {
		return fmt.Sprintf("data %v, want %v", dm, x.Data)
	}
	wantME := map[string]string{}
	if x.HasShell {
		wantME["shell"] = x.Shell
	}
	gotME := map[string]string{}
	for k, v := range e.Metadata.Extra {
		gotME[k] = fmt.Sprint(v)
	}
	if !hasAll(gotME, wantME) {
		return fmt.Sprintf("metadata.extra %v, want %v", e.Metadata.Extra, wantME)
	}
	if e.LoggedAt.Before(o.T0.Add(-time.Millisecond)) || e.LoggedAt.After(o.T1.Add(time.Millisecond)) {
		return fmt.Sprintf("loggedAt %v outside the processing interval [%v,%v]", e.LoggedAt, o.T0, o.T1)
	}
	return ""
}

// checkC19 judges the counter delta of one line against the emitted events.
func checkC19(line string, o obs, keyworded bool) string {
	total := 0.0
	for _, v := range o.Metrics {
		total += v
	}
	if !keyworded {
		if total != 0 {
			return "a line without a recognised keyword changed counters: " + renderDelta(o.Metrics)
		}
		return ""
	}
	for _, e := range o.Events {
		if e.Type != "UserLogin" {
			continue
		}
		if total != 1 {
			return fmt.Sprintf("one UserLogin emitted but counters changed by %s", renderDelta(o.Metrics))
		}
		for k := range o.Metrics {
			method, outc, _ := strings.Cut(k, "/")
			want := "failure"
			if e.Outcome == "succeeded" {
				want = "success"
			}
			if outc != want {
				return fmt.Sprintf("event outcome %s counted as %s", e.Outcome, k)
			}
			isPw := strings.HasPrefix(line, "Accepted password")
			isPk := strings.HasPrefix(line, "Accepted publickey")
			if isPw && method != "password" {
				return "password login counted as " + k
			}
			if isPk && method != "ssh-key" && method != "ssh-cert" {
				return "public-key login counted as " + k
			}
			if !isPw && method == "password" || !isPk && !strings.HasPrefix(line, "Certificate invalid") && (method == "ssh-key" || method == "ssh-cert") {
				return "non-matching method label " + k
			}
		}
	}
	return ""
}

var keywords = []string{"Accepted publickey", "Accepted password", "Certificate invalid", "Invalid user", "User ",
	"ROOT LOGIN REFUSED FROM ", "Authentication refused for ", "Nasty PTR record ", "reverse mapping checking getaddrinfo for ",
	"Address ", "maximum authentication attempts exceeded for ", "Authentication key ", "Error checking authentication key ", "Failed password for "}

func hasKeyword(line string) bool {
	for _, k := range keywords {
		if strings.HasPrefix(line, k) {
			return true
		}
	}
	return false
}
