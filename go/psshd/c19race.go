package psshd

import (
	"context"
	"encoding/json"
	"fmt"
	"os"
	"os/exec"
	"strings"
	"sync"

	"github.com/metal-toolbox/auditevent"
	"github.com/prometheus/client_golang/prometheus"

	"github.com/metal-toolbox/audito-maldito/internal/common"
	"github.com/metal-toolbox/audito-maldito/internal/metrics"
	"github.com/metal-toolbox/audito-maldito/internal/verif/mc"
	"github.com/metal-toolbox/audito-maldito/processors/sshd"
)

// The daemon hands ONE metrics provider to the sshd worker and to the goroutine that watches audit.log
// (-audit-metrics: SetAuditLogCheck / SetAuditLogModifyTime every few seconds). The per-line part of C19 drives the
// provider from one goroutine, so whatever the provider shares between its methods without synchronisation is
// invisible there. This pass runs the same line bodies as free goroutines next to that second user, under the race
// detector (a cooperative scheduler would hide such accesses: its hand-offs are happens-before edges), and judges
// every line's counter delta as the per-line part does.

func c19RaceChild() int {
	s := fieldSets(false)
	s.users, s.addrs, s.ports, s.keytypes, s.keyids, s.serials = s.users[:2], s.addrs[:2], s.ports[:1], s.keytypes[:2], s.keyids[:2], s.serials[:1]
	seen := map[string]bool{}
	var lines []Exp
	forms(s, func(x Exp) {
		if !seen[x.Form] || len(lines) < 400 {
			seen[x.Form] = true
			lines = append(lines, x)
		}
	})
	reg := prometheus.NewRegistry()
	mp := metrics.NewPrometheusMetricsProviderForRegisterer(reg)
	r := &rig{rec: &recorder{}, reg: reg, logins: make(chan common.RemoteUserLogin, 4)}
	r.ew = auditevent.NewAuditEventWriter(r.rec)
	r.proc = sshd.NewSshdProcessor(context.Background(), r.logins, nodeName, machineID, r.ew, mp)
	stop := make(chan struct{})
	var wg sync.WaitGroup
	wg.Add(1)
	go func() { // the audit.log watcher of cmd.handleAuditLogMetrics, without its ticker
		defer wg.Done()
		for i := 0; ; i++ {
			select {
			case <-stop:
				return
			default:
			}
			mp.SetAuditLogCheck(float64(i%2), "86400")
			mp.SetAuditLogModifyTime(float64(1700000000 + i))
		}
	}()
	bad, n := 0, 0
	for round := 0; round < 5; round++ {
		for _, x := range lines {
			o := r.run(true, "4711", x.Line, "")
			n++
			if msg := checkC19(x.Line, o, true); msg != "" && bad < 5 {
				bad++
				fmt.Printf("MISCOUNT %q: %s\n", x.Line, msg)
			}
		}
	}
	close(stop)
	wg.Wait()
	b, _ := json.Marshal(map[string]any{"lines_processed_next_to_the_audit_log_watcher": n, "miscounted": bad})
	fmt.Println(string(b))
	return 0
}

// c19RacePass runs the child (if the race binary was built) and reports what it found.
func c19RacePass(run *mc.Run, cov *mc.Coverage) {
	if cov.Extra == nil {
		cov.Extra = map[string]any{}
	}
	bin := os.Getenv("VERIF_RACE_BIN")
	if bin == "" {
		cov.Extra["race_pass"] = map[string]any{"ran": false}
		run.Note("race binary missing: the provider shared with the audit.log watcher was not exercised in this run")
		return
	}
	cmd := exec.Command(bin, "-test.timeout", "0", "-test.run", "^TestCheck$")
	cmd.Env = append(os.Environ(), "VERIF_RACE_CHILD=1", "GORACE=halt_on_error=0 exitcode=66")
	out, err := cmd.CombinedOutput()
	races := strings.Count(string(out), "WARNING: DATA RACE")
	mis := strings.Count(string(out), "MISCOUNT ")
	cov.Extra["race_pass"] = map[string]any{"ran": true, "data_race_reports": races, "miscounted_lines": mis, "tail": lastLines(string(out), 2)}
	if races > 0 || mis > 0 || err != nil {
		run.Violation("C19:shared-provider", map[string]any{"race_output": lastLines(string(out), 60)},
			"lines processed while the audit.log watcher uses the same metrics provider (free-running, -race):\n"+lastLines(string(out), 40))
	}
}

func lastLines(s string, n int) string {
	ls := strings.Split(strings.TrimRight(s, "\n"), "\n")
	if len(ls) > n {
		ls = ls[len(ls)-n:]
	}
	return strings.Join(ls, "\n")
}
