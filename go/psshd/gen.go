// Package psshd holds the bounded-exhaustive input checks of the sshd pipeline
// (C05, C06, C07, C11, C17, C19): every line of a finite grammar is pushed
// through the real sshd processor / syslog ingester and compared with an
// expectation known by construction from the generating fields.
package psshd

import (
	"fmt"
	"strings"
)

// Exp is what a generated line must produce.
type Exp struct {
	Form     string
	Line     string
	Outcome  string // "succeeded" | "failed"
	LoggedAs string
	AnyUser  bool // account left unconstrained ("invalid user " variants)
	UserID   string
	Source   string
	Port     string            // "" = no port key expected
	HasPort  bool              // whether source.extra.port is expected at all
	DNS      string            // source.extra.dns ("" = absent)
	Data     map[string]string // event data (nil = absent)
	Subj     map[string]string // additional subjects (filePath, keyType, fingerprint)
	Shell    string            // metadata.extra.shell
	HasShell bool
	Login    bool   // a login must be forwarded
	Cred     string // its credential user id
	Method   string // metrics label
	MOutcome string
}

// field value sets -----------------------------------------------------------

type sets struct {
	users, addrs, ports, keytypes, fps, keyids, serials, cas, shells, paths, dns, reasons, hosts []string
}

func fieldSets(thorough bool) sets {
	s := sets{
		// "#012": the printable characters a client can type that look like rsyslog's escape of a line feed
		users: []string{"a", "root", "a.b-c_d@e$", "ユーザー", strings.Repeat("x", 32), "dep#012loy", "adm\xff\xfein", `CORP\\jd\303\253`, "adm\u202enimda\u200f"}, // (the last: bidirectional control characters - a "Trojan source" name; two bytes that are not UTF-8, e.g. a Latin-1 name; the text sshd's vis(3) encoding produces for CORP\jdë)
		// addresses are recorded as printed: the upper-case, zero-padded, uncompressed and v4-mapped-hex
		// spellings parse as IP addresses but are not what a canonicalising formatter would print
		addrs:    []string{"UNKNOWN", "1.2.3.4", "::1", "fe80::1%eth0", "2001:db8::ffff:1.2.3.4", "host.example.com", "FE80::0001", "0:0:0:0:0:0:0:1", "::ffff:a00:1"},
		ports:    []string{"0", "22", "65535"},
		keytypes: []string{"RSA", "DSA", "ECDSA", "ED25519", "ECDSA-SK", "ED25519-SK", "XMSS", "WEBAUTHN-SK-ECDSA"},
		fps:      []string{"SHA256:YI+caZKJCNaXgsD0NvRZ2fLaEeF46cEVyadru/SL76o", "MD5:aa:bb:cc:dd:ee:ff:00:11:22:33:44:55:66:77:88:99"},
		keyids:   []string{"k", "a b", "x (serial 7)", "serial", "ID y", "(z) CA q", "foo@bar.com", "two  blanks", ""},      // (the last: ssh-keygen -I "")
		serials:  []string{"0", "18446744073709551615", "18446744073709551616", "7777777777777777777777777777777777777777"}, // 2^64-1, 2^64, 40 digits: the serial is text
		cas:      []string{"CA ED25519 SHA256:Pcs5TWfcOSKb7Rw/XyvHfUcaQzmw6HtLrjUoyXuzIj8", "CA RSA MD5:aa:bb:cc:dd:ee:ff:00:11:22:33:44:55:66:77:88:99"},
		shells:   []string{"/bin/zsh", "/opt/my shell/sh", "x", "/opt/tab\tand  blanks/sh"},
		paths:    []string{"/home/a/.ssh/authorized_keys", "/etc/ssh/revoked keys", "/x", "/srv/my  files/keys"},
		dns:      []string{"evil.example.com", "a.b", `q"uote`},
		reasons:  []string{"expired", "name is not a listed principal", "Certificate invalid: nested", "not yet valid"},
		hosts:    []string{"1.2.3.4", "host.example.com", "fe80::1%eth0"},
	}
	if !thorough {
		s.users = []string{"a", "a.b-c_d@e$", "ユーザー", "dep#012loy", "adm\xff\xfein", `CORP\\jd\303\253`, "adm\u202enimda\u200f"}
		s.addrs = []string{"1.2.3.4", "fe80::1%eth0", "host.example.com", "FE80::0001", "UNKNOWN"} // (UNKNOWN: what sshd prints when the connection is no socket)
		s.ports = []string{"0", "65535"}
		s.keytypes = []string{"RSA", "ED25519", "ECDSA-SK", "XMSS"}
		s.keyids = []string{"k", "a b", "x (serial 7)", "ID y", "two  blanks", "", "foo@bar.com"}
	}
	return s
}

// splitFP returns hash name and digest of a fingerprint "SHA256:xyz".
func splitFP(fp string) (string, string) {
	i := strings.Index(fp, ":")
	return fp[:i], fp[i+1:]
}

func base(form, line string) Exp {
	return Exp{Form: form, Line: line, Outcome: "failed", UserID: "unknown", Method: "unknown", MOutcome: "failure"}
}

// forms enumerates every line of the C06 domain through emit.
func forms(s sets, emit func(Exp)) {
	// 1-3 accepted public key: plain, certificate, trailing text
	// (also with user names that contain the fingerprint the line itself ends with, followed by what a certificate
	// section looks like: a client knows its own key)
	pkUsers := append([]string{}, s.users...)
	pkUsers = append(pkUsers, s.fps[0]+" ID mallory@evil (serial 7) CA x")
	for _, u := range pkUsers {
		for _, a := range s.addrs {
			for _, p := range s.ports {
				for _, kt := range s.keytypes {
					for _, fp := range s.fps {
						hash, sum := splitFP(fp)
						head := fmt.Sprintf("Accepted publickey for %s from %s port %s ssh2: ", u, a, p)
						e := base("accepted-publickey", head+kt+" "+fp)
						e.Outcome, e.LoggedAs, e.Source, e.Port, e.HasPort = "succeeded", u, a, p, true
						e.Data = map[string]string{"Alg": kt + " " + hash, "SSHKeySum": sum}
						e.Login, e.Cred, e.Method, e.MOutcome = true, "unknown", "ssh-key", "success"
						emit(e)
						t := e
						t.Form = "accepted-publickey-trailing"
						t.Line = e.Line + " some trailing words"
						t.Method = "ssh-cert"
						emit(t)
						for _, id := range s.keyids {
							for _, ser := range s.serials {
								for _, ca := range s.cas {
									c := base("accepted-certificate", fmt.Sprintf("%s%s-CERT %s ID %s (serial %s) %s", head, kt, fp, id, ser, ca))
									c.Outcome, c.LoggedAs, c.Source, c.Port, c.HasPort = "succeeded", u, a, p, true
									c.UserID = id
									c.Data = map[string]string{"Alg": kt + "-CERT " + hash, "SSHKeySum": sum, "Serial": ser, "CA": ca}
									c.Login, c.Cred, c.Method, c.MOutcome = true, id, "ssh-cert", "success"
									emit(c)
								}
							}
						}
					}
				}
				// 4 accepted password
				e := base("accepted-password", fmt.Sprintf("Accepted password for %s from %s port %s ssh2", u, a, p))
				e.Outcome, e.LoggedAs, e.Source, e.Port, e.HasPort = "succeeded", u, a, p, true
				e.Login, e.Cred, e.Method, e.MOutcome = true, "unknown", "password", "success"
				emit(e)
				// 6 invalid user
				e = base("invalid-user", fmt.Sprintf("Invalid user %s from %s port %s", u, a, p))
				e.LoggedAs, e.Source, e.Port, e.HasPort = u, a, p, true
				emit(e)
				// 19, 22 max attempts / failed password, with and without "invalid user "
				for _, inv := range []string{"", "invalid user "} {
					e = base("max-auth-attempts", fmt.Sprintf("maximum authentication attempts exceeded for %s%s from %s port %s ssh2", inv, u, a, p))
					e.LoggedAs, e.AnyUser, e.Source, e.Port, e.HasPort = u, inv != "", a, p, true
					emit(e)
					e = base("failed-password", fmt.Sprintf("Failed password for %s%s from %s port %s ssh2", inv, u, a, p))
					e.LoggedAs, e.AnyUser, e.Source, e.Port, e.HasPort = u, inv != "", a, p, true
					emit(e)
				}
			}
		}
		// 7-13 "User ..." forms
		for _, h := range s.hosts {
			for _, why := range []struct{ form, text string }{
				{"not-in-allowusers", "not listed in AllowUsers"},
				{"in-denyusers", "listed in DenyUsers"},
				{"not-in-any-group", "not in any group"},
				{"group-in-denygroups", "a group is listed in DenyGroups"},
				{"not-in-allowgroups", "none of user's groups are listed in AllowGroups"},
			} {
				e := base(why.form, fmt.Sprintf("User %s from %s not allowed because %s", u, h, why.text))
				e.LoggedAs, e.Source = u, h
				emit(e)
			}
		}
		for _, sh := range s.shells {
			e := base("shell-does-not-exist", fmt.Sprintf("User %s not allowed because shell %s does not exist", u, sh))
			e.LoggedAs, e.Source, e.Shell, e.HasShell = u, "unknown", sh, true
			emit(e)
			e = base("shell-not-executable", fmt.Sprintf("User %s not allowed because shell %s is not executable", u, sh))
			e.LoggedAs, e.Source, e.Shell, e.HasShell = u, "unknown", sh, true
			emit(e)
		}
		// 15 bad owner or modes
		for _, path := range s.paths {
			e := base("bad-owner-or-modes", fmt.Sprintf("Authentication refused for %s: bad owner or modes for %s", u, path))
			e.LoggedAs, e.Source = u, "unknown"
			e.Subj = map[string]string{"filePath": path}
			emit(e)
		}
	}
	// 5 certificate invalid
	for _, r := range s.reasons {
		e := base("certificate-invalid", "Certificate invalid: "+r)
		e.LoggedAs, e.Source, e.Port, e.HasPort = "unknown", "unknown", "unknown", true
		e.Data = map[string]string{"error": "certificate invalid", "reason": r}
		e.Method = "ssh-cert"
		emit(e)
	}
	for _, a := range s.addrs {
		// 14 root login refused
		for _, p := range s.ports {
			e := base("root-login-refused", fmt.Sprintf("ROOT LOGIN REFUSED FROM %s port %s", a, p))
			e.LoggedAs, e.Source, e.Port, e.HasPort = "root", a, p, true
			emit(e)
		}
		// 16-18 reverse DNS
		for _, d := range s.dns {
			e := base("nasty-ptr", fmt.Sprintf(`Nasty PTR record "%s" is set up for %s, ignoring`, d, a))
			e.LoggedAs, e.Source, e.DNS = "unknown", a, d
			emit(e)
			e = base("reverse-mapping-failed", fmt.Sprintf("reverse mapping checking getaddrinfo for %s [%s] failed.", d, a))
			e.LoggedAs, e.Source, e.DNS = "unknown", a, d
			emit(e)
			e = base("does-not-map-back", fmt.Sprintf("Address %s maps to %s, but this does not map back to the address.", a, d))
			e.LoggedAs, e.Source, e.DNS = "unknown", a, d
			emit(e)
		}
	}
	// 20-21 revoked keys
	for _, kt := range s.keytypes {
		for _, fp := range s.fps {
			for _, path := range s.paths {
				e := base("revoked-key", fmt.Sprintf("Authentication key %s %s revoked by file %s", kt, fp, path))
				e.LoggedAs, e.Source = "unknown", "unknown"
				e.Subj = map[string]string{"keyType": kt, "fingerprint": fp, "filePath": path}
				emit(e)
				e = base("revoked-key-error", fmt.Sprintf("Error checking authentication key %s %s in revoked keys file %s", kt, fp, path))
				e.LoggedAs, e.Source = "unknown", "unknown"
				e.Subj = map[string]string{"keyType": kt, "fingerprint": fp, "filePath": path}
				emit(e)
			}
		}
	}
}
