package psshd

import (
	"fmt"
	"reflect"

	"github.com/elastic/go-libaudit/v2/auparse"

	"github.com/metal-toolbox/audito-maldito/internal/verif/auditgen"
	"github.com/metal-toolbox/audito-maldito/internal/verif/mc"
)

// auditLinesSame: C07's audit half. auparse.ParseLogLine(l) and (l+"\n")
// must give the same message (type, header, raw data, parsed fields).
func auditLinesSame(run *mc.Run) (n, bad int) {
	for _, l := range auditgen.AllLines(run.Thorough()) {
		n++
		a, errA := auparse.ParseLogLine(l)
		b, errB := auparse.ParseLogLine(l + "\n")
		same := (errA == nil) == (errB == nil)
		if same && errA == nil {
			da, _ := a.Data()
			db, _ := b.Data()
			same = a.RecordType == b.RecordType && a.Timestamp.Equal(b.Timestamp) && a.Sequence == b.Sequence &&
				a.RawData == b.RawData && reflect.DeepEqual(da, db)
		}
		if !same {
			bad++
			run.Violation("C07:audit-line:newline", map[string]any{"audit_line": l},
				fmt.Sprintf("audit line %q parses differently with a trailing newline: %v / %v", l, errA, errB))
		}
	}
	return n, bad
}
