package psshd

import (
	"context"
	"encoding/json"
	"fmt"
	"os"
	"path/filepath"
	"regexp"
	"runtime"
	"strings"
	"sync"
	"sync/atomic"
	"syscall"
	"testing"
	"time"
	"unicode/utf8"

	"github.com/metal-toolbox/audito-maldito/ingesters/namedpipe"
	"github.com/metal-toolbox/audito-maldito/ingesters/syslog"
	"github.com/metal-toolbox/audito-maldito/internal/health"
	"github.com/metal-toolbox/audito-maldito/processors/sshd"

	"github.com/metal-toolbox/audito-maldito/internal/verif/collide"
	"github.com/metal-toolbox/audito-maldito/internal/verif/mc"
)

type item struct {
	x   Exp
	pid string
	tag string
}

// parallel feeds every generated item to workers (one rig each).
func parallel(gen func(emit func(item)), work func(r *rig, it item), stop func() bool) (n int64, complete bool) {
	ch := make(chan item, 1024)
	var wg sync.WaitGroup
	for w := 0; w < runtime.GOMAXPROCS(0); w++ {
		wg.Add(1)
		go func() {
			defer wg.Done()
			r := newRig(4)
			for it := range ch {
				work(r, it)
				atomic.AddInt64(&n, 1)
			}
		}()
	}
	complete = true
	gen(func(it item) {
		if !complete {
			return
		}
		if stop != nil && atomic.LoadInt64(&n)%4096 == 0 && stop() {
			complete = false
			return
		}
		ch <- it
	})
	close(ch)
	wg.Wait()
	return n, complete
}

var pidTokens = []string{"1", "25007", "4194304", "007", "010", "0123", "089"}

type sampler struct {
	mu      sync.Mutex
	samples []any
	forms   map[string]int
}

func (s *sampler) add(form, line string) {
	s.mu.Lock()
	defer s.mu.Unlock()
	if s.forms == nil {
		s.forms = map[string]int{}
	}
	s.forms[form]++
	if s.forms[form] == 1 && len(s.samples) < 30 {
		s.samples = append(s.samples, line)
	}
}

func firstWords(s string, n int) string {
	f := strings.Fields(s)
	if len(f) > n {
		f = f[:n]
	}
	return strings.Join(f, "_")
}

// ---------------------------------------------------------------- C06

func runC06(run *mc.Run) int {
	s := fieldSets(run.Thorough())
	pids := pidTokens[:2]
	if run.Thorough() {
		pids = pidTokens
	}
	var sm sampler
	replayLine, replayPid := loadLineReplay(run)
	n, complete := parallel(func(emit func(item)) {
		if replayLine != "" {
			return
		}
		forms(s, func(x Exp) {
			for _, p := range pids {
				emit(item{x: x, pid: p})
			}
		})
	}, func(r *rig, it item) {
		o := r.run(true, it.pid, it.x.Line, "")
		sm.add(it.x.Form, it.x.Line)
		if msg := checkC06(it.x, it.pid, o); msg != "" {
			run.Violation("C06:"+it.x.Form+":"+firstWords(msg, 2), map[string]any{"pid": it.pid, "line": it.x.Line, "form": it.x.Form},
				fmt.Sprintf("line %q (pid %s): %s\nemitted: %v", it.x.Line, it.pid, msg, o.Raw))
		}
	}, run.Expired)
	if replayLine != "" {
		return replayOne(run, replayLine, replayPid)
	}
	// second pass, end to end: the same lines written to a real FIFO read by the real syslog ingester (the path
	// the daemon uses); each line must again yield exactly its one event
	piped := c06ThroughPipe(run, s, pids[0])
	n += int64(piped)
	// third pass: what a line yields does not depend on the line before it - every ordered pair of message
	// forms (one representative line each), from the same sshd process and from two different ones
	n += int64(c06Pairs(run, pids[0], pids[1]))
	cov := mc.Coverage{Level: "exploration", Evaluations: int(n), Distinct: int(n) / (len(pids) + 1), Exhaustive: complete, Samples: sm.samples,
		Rule:  "full cartesian product of the per-field value sets for each of the 22 sshd message forms (sshd's own format strings), each x every pid token, through the real ProcessSshdLogEntry, and once more (first pid token) as '<pid> <message>\\n' through a real FIFO into the real syslog ingester, each line twice in a row, plus every ordered pair of the 22 forms (same pid / two pids) and every pair (one of 8 other real sshd lines, form) through the FIFO; expected event assembled from the generating fields. distinct_nontrivial = distinct generated lines (all begin with a dispatch keyword and reach a regular expression)",
		Extra: map[string]any{"lines_per_form": sm.forms, "pid_tokens": pids}}
	cov.Assumptions = []string{"field value sets as listed in go/psshd/gen.go (chosen to hit every greedy/lazy/optional/anchored construct)"}
	return run.Finish(cov)
}

// c06Pairs writes every ordered pair of representative lines (one per message form) to the pipe, once with the
// same pid and once with different pids, and judges both events like C06 judges a single line.
func c06Pairs(run *mc.Run, pidA, pidB string) int {
	dir := os.Getenv("VERIF_BUILD")
	if dir == "" {
		dir = os.TempDir()
	}
	dir = filepath.Join(dir, "c06-pair-fifos")
	_ = os.MkdirAll(dir, 0o755)
	var reps []Exp
	seen := map[string]bool{}
	forms(fieldSets(false), func(x Exp) {
		if !seen[x.Form] {
			seen[x.Form] = true
			reps = append(reps, x)
		}
	})
	type pair struct {
		x, y   Exp
		px, py string
	}
	jobs := make(chan pair, 64)
	var wg sync.WaitGroup
	var n int64
	for wk := 0; wk < runtime.GOMAXPROCS(0); wk++ {
		wg.Add(1)
		go func() {
			defer wg.Done()
			for p := range jobs {
				t0 := time.Now()
				o := throughPipe(dir, []string{p.px + " " + p.x.Line + "\n", p.py + " " + p.y.Line + "\n"})
				o.T0, o.T1 = t0, time.Now()
				atomic.AddInt64(&n, 2)
				msg := ""
				if len(o.Events) != 2 || o.Panic != nil {
					msg = fmt.Sprintf("%d events (panic %v), want one per line", len(o.Events), o.Panic)
				} else if m := checkC06(p.x, p.px, obs{Events: o.Events[:1], T0: o.T0, T1: o.T1}); m != "" {
					msg = "first line: " + m
				} else if m := checkC06(p.y, p.py, obs{Events: o.Events[1:2], T0: o.T0, T1: o.T1}); m != "" {
					msg = "second line: " + m
				}
				if msg != "" {
					run.Violation("C06:pair:"+p.x.Form+"->"+p.y.Form+":"+firstWords(msg, 2), map[string]any{"cases": []c07case{{Form: p.x.Form, Pid: p.px, Msg: p.x.Line, Line: p.px + " " + p.x.Line + "\n"}, {Form: p.y.Form, Pid: p.py, Msg: p.y.Line, Line: p.py + " " + p.y.Line + "\n"}}},
						fmt.Sprintf("line %q (pid %s) followed by line %q (pid %s) through the pipe: %s", p.x.Line, p.px, p.y.Line, p.py, msg))
				}
			}
		}()
	}
	for _, x := range reps {
		for _, y := range reps {
			jobs <- pair{x, y, pidA, pidA}
			jobs <- pair{x, y, pidA, pidB}
		}
	}
	close(jobs)
	wg.Wait()
	// lines sshd really prints that the daemon does not turn into events (multi-step authentication, connection
	// bookkeeping, PAM): they yield nothing and leave nothing behind for the next line of the same process
	others := otherSshdLines
	var owg sync.WaitGroup
	for _, o1 := range others {
		for _, y := range reps {
			owg.Add(1)
			go func(o1 string, y Exp) {
				defer owg.Done()
				t0 := time.Now()
				o := throughPipe(dir, []string{pidA + " " + o1 + "\n", pidA + " " + y.Line + "\n"})
				o.T0, o.T1 = t0, time.Now()
				atomic.AddInt64(&n, 2)
				msg := ""
				if len(o.Events) != 1 || o.Panic != nil {
					msg = fmt.Sprintf("%d events (panic %v), want none for the first line and one for the second", len(o.Events), o.Panic)
				} else if m := checkC06(y, pidA, o); m != "" {
					msg = "second line: " + m
				}
				if msg != "" {
					run.Violation("C06:pair:other-sshd-line->"+y.Form+":"+firstWords(msg, 2), map[string]any{"cases": []c07case{{Form: "other", Pid: pidA, Msg: o1, Line: pidA + " " + o1 + "\n"}, {Form: y.Form, Pid: pidA, Msg: y.Line, Line: pidA + " " + y.Line + "\n"}}},
						fmt.Sprintf("line %q followed by line %q (same pid %s) through the pipe: %s", o1, y.Line, pidA, msg))
				}
			}(o1, y)
		}
	}
	owg.Wait()
	return int(n)
}

// c06ThroughPipe runs every line of the product through pipe -> named-pipe ingester -> syslog ingester ->
// processor, in batches; a batch that does not yield one event per line is re-run line by line.
func c06ThroughPipe(run *mc.Run, s sets, pid string) int {
	dir := os.Getenv("VERIF_BUILD")
	if dir == "" {
		dir = os.TempDir()
	}
	dir = filepath.Join(dir, "c06-fifos")
	_ = os.MkdirAll(dir, 0o755)
	var all []Exp
	forms(s, func(x Exp) { all = append(all, x) })
	all = append(all, extraLong()...) // lines longer than one / two read buffers, in the middle of ordinary ones
	all = append(all, all[:3]...)
	const batch = 400
	jobs := make(chan []Exp, 32)
	var wg sync.WaitGroup
	judge := func(x Exp, o obs, k int) {
		one := obs{Events: o.Events[k : k+1], T0: o.T0, T1: o.T1}
		if msg := checkC06(x, pid, one); msg != "" {
			run.Violation("C06:piped:"+x.Form+":"+firstWords(msg, 2), map[string]any{"pid": pid, "line": x.Line, "form": x.Form},
				fmt.Sprintf("line %q written to the sshd pipe as %q: %s", x.Line, pid+" "+x.Line+"\\n", msg))
		}
	}
	for wk := 0; wk < runtime.GOMAXPROCS(0); wk++ {
		wg.Add(1)
		go func() {
			defer wg.Done()
			for xs := range jobs {
				// every line is written twice in a row, byte for byte (sshd prints "Failed password ..." once per
				// wrong attempt on the same connection): each copy is a line of its own and yields its own event
				var lines []string
				for _, x := range xs {
					lines = append(lines, pid+" "+x.Line+"\n", pid+" "+x.Line+"\n")
				}
				t0 := time.Now()
				o := throughPipe(dir, lines)
				o.T0, o.T1 = t0, time.Now()
				if len(o.Events) == 2*len(xs) && o.Panic == nil {
					for k, x := range xs {
						judge(x, o, 2*k)
						judge(x, o, 2*k+1)
					}
					continue
				}
				for _, x := range xs { // find the lines that do not yield exactly one event per copy
					for copies := 1; copies <= 2; copies++ {
						t0 := time.Now()
						var o obs
						if copies == 1 {
							o = throughPipe(dir, []string{pid + " " + x.Line + "\n"})
						} else {
							o = throughPipe(dir, []string{pid + " " + x.Line + "\n", pid + " " + x.Line + "\n"})
						}
						o.T0, o.T1 = t0, time.Now()
						if len(o.Events) != copies || o.Panic != nil {
							what := "event-count"
							if copies == 2 {
								what = "repeated-line-event-count"
							}
							run.Violation("C06:piped:"+x.Form+":"+what, map[string]any{"pid": pid, "line": x.Line, "copies": copies},
								fmt.Sprintf("line %q written %d time(s) in a row to the sshd pipe yields %d events (panic %v), want exactly %d", x.Line, copies, len(o.Events), o.Panic, copies))
							break
						}
						for k := 0; k < copies; k++ {
							judge(x, o, k)
						}
					}
				}
			}
		}()
	}
	for i := 0; i < len(all); i += batch {
		j := i + batch
		if j > len(all) {
			j = len(all)
		}
		jobs <- all[i:j]
	}
	close(jobs)
	wg.Wait()
	return len(all)
}

func loadLineReplay(run *mc.Run) (string, string) {
	if run.Replay == "" {
		return "", ""
	}
	var rp struct {
		Pid  string `json:"pid"`
		Line string `json:"line"`
	}
	if _, err := mc.LoadReplay(run.Replay, &rp); err != nil {
		fmt.Println(err)
		return "", ""
	}
	return rp.Line, rp.Pid
}

// replayOne shows what one (pid,line) produces directly and through the ingester.
func replayOne(run *mc.Run, line, pid string) int {
	r := newRig(4)
	a := r.run(true, pid, line, "")
	b := r.run(false, "", "", pid+" "+line+"\n")
	fmt.Printf("direct:\n%sframed:\n%s", a.canon(), b.canon())
	return 0
}

// ---------------------------------------------------------------- C07

// extraLong are accepted-certificate lines whose key ID (printed by sshd with an unbounded %s) makes the line
// longer than one and than two 4096-byte read buffers.
func extraLong() []Exp {
	s := fieldSets(false)
	s.users, s.addrs, s.ports, s.keytypes, s.fps, s.serials, s.cas = s.users[:1], s.addrs[:1], s.ports[:1], s.keytypes[:1], s.fps[:1], s.serials[:1], s.cas[:1]
	s.keyids = []string{"kid-" + strings.Repeat("K", 4300) + "-end", "kid-" + strings.Repeat("L", 9100) + "-end"}
	var out []Exp
	forms(s, func(x Exp) {
		if len(x.Line) > 4096 {
			out = append(out, x)
		}
	})
	return out
}

// extraSpaced are lines whose message contains internal runs of blanks.
func extraSpaced() []Exp {
	var out []Exp
	e := base("certificate-invalid", "Certificate invalid: name  is   spaced")
	e.LoggedAs, e.Source, e.Port, e.HasPort = "unknown", "unknown", "unknown", true
	e.Data = map[string]string{"error": "certificate invalid", "reason": "name  is   spaced"}
	out = append(out, e)
	e = base("bad-owner-or-modes", "Authentication refused for a: bad owner or modes for /home/a  b/.ssh/authorized_keys")
	e.LoggedAs, e.Source = "a", "unknown"
	e.Subj = map[string]string{"filePath": "/home/a  b/.ssh/authorized_keys"}
	out = append(out, e)
	e = base("accepted-certificate", "Accepted publickey for a from 1.2.3.4 port 22 ssh2: ED25519-CERT SHA256:abc ID two  blanks (serial 1) CA ED25519 SHA256:def")
	out = append(out, e)
	return out
}

// framing is one way of writing (pid, message) onto the sshd pipe.
type framing struct {
	tag  string
	msg  func(m string) string      // the message the processor must see
	line func(pid, m string) string // the bytes written to the pipe
}

var framings = []framing{
	{"newline", func(m string) string { return m }, func(p, m string) string { return p + " " + m + "\n" }},
	{"padding", func(m string) string { return m }, func(p, m string) string { return p + "   " + m + "\n" }},
	// the message's own trailing blank / tab / CR belongs to the record, only the newline frames it
	{"trailing-blank", func(m string) string { return m + " " }, func(p, m string) string { return p + " " + m + " \n" }},
	{"trailing-tab", func(m string) string { return m + "\t" }, func(p, m string) string { return p + " " + m + "\t\n" }},
	{"trailing-cr", func(m string) string { return m + "\r" }, func(p, m string) string { return p + " " + m + "\r\n" }},
	// the same message arriving WITHOUT its pid prefix (a continuation line, a template without %procid%): the
	// line still reads "<pid> <message>" with its first word in the pid position - nothing remembered from an
	// earlier line may fill in (the batches put it right after ordinary lines of the same connection)
	{"no-pid-prefix", func(m string) string { _, rest, _ := strings.Cut(m, " "); return strings.TrimLeft(rest, " ") }, func(p, m string) string { return m + "\n" }},
}

// pidOf is the pid token the processor must see for message m framed by fr after pid p.
func (fr framing) pidOf(p, m string) string {
	if fr.tag == "no-pid-prefix" {
		first, _, _ := strings.Cut(m, " ")
		return first
	}
	return p
}

type c07case struct {
	Form string `json:"form"`
	Pid  string `json:"pid"`
	Msg  string `json:"msg"`
	Line string `json:"line"`
	Tag  string `json:"tag"`
}

// throughPipe writes the lines to a real FIFO read by the real SyslogIngester.Ingest (named-pipe
// ingester -> syslog ingester -> sshd processor) and returns everything the batch produced.
func throughPipe(dir string, lines []string) (o obs) {
	path := filepath.Join(dir, fmt.Sprintf("sshd-pipe-%d", atomic.AddInt64(&pipeSeq, 1)))
	if err := syscall.Mkfifo(path, 0o600); err != nil {
		panic(err)
	}
	defer os.Remove(path)
	r := newRig(4*len(lines) + 64) // (room for a change that hands over several logins per line: it is reported, not waited for)
	ing := syslog.NewSyslogIngester(path, r.proc, namedpipe.NewNamedPipeIngester(mc.DebugLogger(), health.NewHealth()))
	ctx, cancel := context.WithCancel(context.Background())
	defer cancel()
	before := r.counters()
	done := make(chan error, 1)
	go func() {
		defer func() {
			if p := recover(); p != nil {
				o.Panic = p
				done <- nil
			}
		}()
		done <- ing.Ingest(ctx)
	}()
	w, err := os.OpenFile(path, os.O_WRONLY, 0)
	if err != nil {
		panic(err)
	}
	_, _ = w.WriteString(strings.Join(lines, ""))
	w.Close()
	select {
	case <-done:
	case <-time.After(60 * time.Second):
		o.Panic = "the ingester did not return after the writer closed the pipe"
		cancel()
		<-done
	}
	o.Events = append(o.Events, r.rec.copies...)
	for {
		select {
		case l := <-r.logins:
			o.Logins = append(o.Logins, l)
			continue
		default:
		}
		break
	}
	o.Metrics = delta(before, r.counters())
	return o
}

// throughPipeSplit is throughPipe with the bytes written in two parts: everything up to the middle of the LAST
// line, a pause, then the rest - a log writer that stalls in the middle of a record.
func throughPipeSplit(dir string, lines []string, pause time.Duration) (o obs) {
	path := filepath.Join(dir, fmt.Sprintf("sshd-pipe-%d", atomic.AddInt64(&pipeSeq, 1)))
	if err := syscall.Mkfifo(path, 0o600); err != nil {
		panic(err)
	}
	defer os.Remove(path)
	r := newRig(4*len(lines) + 64) // (room for a change that hands over several logins per line: it is reported, not waited for)
	ing := syslog.NewSyslogIngester(path, r.proc, namedpipe.NewNamedPipeIngester(mc.DebugLogger(), health.NewHealth()))
	ctx, cancel := context.WithCancel(context.Background())
	defer cancel()
	before := r.counters()
	done := make(chan error, 1)
	go func() {
		defer func() {
			if p := recover(); p != nil {
				o.Panic = p
				done <- nil
			}
		}()
		done <- ing.Ingest(ctx)
	}()
	w, err := os.OpenFile(path, os.O_WRONLY, 0)
	if err != nil {
		panic(err)
	}
	all := strings.Join(lines, "")
	cut := len(all) - len(lines[len(lines)-1])/2
	_, _ = w.WriteString(all[:cut])
	time.Sleep(pause)
	_, _ = w.WriteString(all[cut:])
	w.Close()
	select {
	case <-done:
	case <-time.After(60 * time.Second):
		o.Panic = "the ingester did not return after the writer closed the pipe"
		cancel()
		<-done
	}
	o.Events = append(o.Events, r.rec.copies...)
	for {
		select {
		case l := <-r.logins:
			o.Logins = append(o.Logins, l)
			continue
		default:
		}
		break
	}
	o.Metrics = delta(before, r.counters())
	return o
}

var pipeSeq int64

func max0(i int) int {
	if i < 0 {
		return 0
	}
	return i
}

// direct processes the (pid, message) pairs one after the other with the real processor.
func direct(cases []c07case) (o obs) {
	r := newRig(len(cases) + 8)
	before := r.counters()
	for _, c := range cases {
		func() {
			defer func() {
				if p := recover(); p != nil {
					o.Panic = p
				}
			}()
			if err := r.proc.ProcessSshdLogEntry(context.Background(), sshd.SshdLogEntry{PID: c.Pid, Message: c.Msg}); err != nil && o.Err == nil {
				o.Err = err
			}
		}()
		o.Events = append(o.Events, r.rec.copies...)
		r.rec.ptrs, r.rec.copies = nil, nil
	}
	for {
		select {
		case l := <-r.logins:
			o.Logins = append(o.Logins, l)
			continue
		default:
		}
		break
	}
	o.Metrics = delta(before, r.counters())
	return o
}

// lateCorrelator: an accepted login written to the pipe while the correlator takes nothing for `wait` of REAL time
// (it is busy behind a slow events output); handed to the processor directly the login waits for its receiver
// however long that takes, so it must through the pipe as well. Returns "" or what went wrong.
func lateCorrelator(dir string, wait time.Duration) string {
	path := filepath.Join(dir, fmt.Sprintf("sshd-pipe-%d", atomic.AddInt64(&pipeSeq, 1)))
	if err := syscall.Mkfifo(path, 0o600); err != nil {
		return ""
	}
	defer os.Remove(path)
	r := newRig(0) // unbuffered logins channel, as in cmd/namedpipe.go
	ing := syslog.NewSyslogIngester(path, r.proc, namedpipe.NewNamedPipeIngester(mc.DebugLogger(), health.NewHealth()))
	ctx, cancel := context.WithCancel(context.Background())
	defer cancel()
	done := make(chan error, 1)
	go func() { done <- ing.Ingest(ctx) }()
	w, err := os.OpenFile(path, os.O_WRONLY, 0)
	if err != nil {
		return ""
	}
	defer w.Close()
	_, _ = w.WriteString("4711 Accepted password for late from 10.0.0.7 port 22 ssh2\n")
	time.Sleep(wait)
	select {
	case err := <-done:
		return fmt.Sprintf("the ingester returned (%v) while its login was waiting for the correlator", err)
	default:
	}
	select {
	case l := <-r.logins:
		if l.PID != 4711 {
			return fmt.Sprintf("login pid %d, want 4711", l.PID)
		}
		return ""
	case <-time.After(5 * time.Second):
		return fmt.Sprintf("the correlator became ready %v after the line was written: no login was waiting for it any more (the event was written: %d)", wait, len(r.rec.copies))
	}
}

func runC07(run *mc.Run) int {
	s := fieldSets(run.Thorough())
	var sm sampler
	var differ, batches int64
	replayLine, replayPid := loadLineReplay(run)
	if replayLine != "" {
		return replayOne(run, replayLine, replayPid)
	}
	dir := os.Getenv("VERIF_BUILD")
	if dir == "" {
		dir = os.TempDir()
	}
	dir = filepath.Join(dir, "c07-fifos")
	_ = os.MkdirAll(dir, 0o755)
	// (runs next to everything else: it is the only part that needs real time to pass)
	lateWait := 12 * time.Second
	if run.Thorough() {
		lateWait = 75 * time.Second
	}
	lateRes := make(chan string, 1)
	if run.Replay == "" {
		go func() { lateRes <- lateCorrelator(dir, lateWait) }()
	}
	if run.Replay != "" {
		var rp struct {
			Cases []c07case `json:"cases"`
		}
		if _, err := mc.LoadReplay(run.Replay, &rp); err != nil || len(rp.Cases) == 0 {
			fmt.Println("cannot load replay:", err)
			return 2
		}
		var lines []string
		for _, c := range rp.Cases {
			lines = append(lines, c.Line)
		}
		a, b := direct(rp.Cases), throughPipe(dir, lines)
		fmt.Printf("direct:\n%sthrough the pipe:\n%s", a.canon(), b.canon())
		if a.canon() != b.canon() {
			fmt.Printf("VIOLATION property=C07 replay=%s\n", run.Replay)
			return 1
		}
		return 0
	}
	// all cases
	var all []c07case
	add := func(x Exp, p string) {
		for _, fr := range framings {
			all = append(all, c07case{x.Form, fr.pidOf(p, x.Line), fr.msg(x.Line), fr.line(p, x.Line), fr.tag})
		}
		sm.add(x.Form, p+" "+x.Line+"\\n")
	}
	firstOf := map[string]bool{}
	for _, p := range pidTokens[:2] {
		forms(s, func(x Exp) {
			add(x, p)
			if k := p + x.Form; !firstOf[k] {
				// the message inside what rsyslog's repeated-message reduction writes, and inside a client-chosen
				// position of another message: the ingester must hand over exactly that text, once
				firstOf[k] = true
				add(Exp{Line: "message repeated 3 times: [ " + x.Line + "]", Form: x.Form + "/repeated-wrapper"}, p)
				add(Exp{Line: "Invalid user message repeated 2 times: [ " + x.Line + "] from 10.0.0.9 port 4022", Form: x.Form + "/repeated-wrapper-in-a-name"}, p)
			}
		})
		for _, x := range extraSpaced() {
			add(x, p)
		}
		for _, x := range extraLong() {
			add(x, p)
		}
	}
	const batch = 400
	var wg sync.WaitGroup
	jobs := make(chan []c07case, 64)
	complete := true
	compare := func(cs []c07case) bool {
		var lines []string
		for _, c := range cs {
			lines = append(lines, c.Line)
		}
		a, b := direct(cs), throughPipe(dir, lines)
		return a.canon() == b.canon()
	}
	for wk := 0; wk < runtime.GOMAXPROCS(0); wk++ {
		wg.Add(1)
		go func() {
			defer wg.Done()
			for cs := range jobs {
				atomic.AddInt64(&batches, 1)
				if compare(cs) {
					continue
				}
				// locate the lines that differ: each one alone
				found := false
				for _, c := range cs {
					one := []c07case{c}
					a, b := direct(one), throughPipe(dir, []string{c.Line})
					if a.canon() != b.canon() {
						found = true
						atomic.AddInt64(&differ, 1)
						run.Violation("C07:"+c.Form+":"+c.Tag, map[string]any{"pid": c.Pid, "line": c.Msg, "framed": c.Line},
							fmt.Sprintf("(pid %q, message %q) handed to the processor directly gives\n%sbut the line %q delivered through the pipe into the syslog ingester gives\n%s", c.Pid, c.Msg, a.canon(), c.Line, b.canon()))
					}
				}
				if found {
					continue
				}
				// no line differs on its own: what a line yields depends on the lines before it. Shortest differing
				// prefix (bisection), then the shortest suffix of that prefix that still differs.
				lo, hi := 1, len(cs) // invariant: cs[:hi] differs
				for lo < hi {
					mid := (lo + hi) / 2
					if compare(cs[:mid]) {
						lo = mid + 1
					} else {
						hi = mid
					}
				}
				from := hi - 1
				for from > 0 && compare(cs[from:hi]) {
					from--
				}
				ctxc := cs[from:hi]
				c := ctxc[len(ctxc)-1]
				var lines []string
				for _, x := range ctxc {
					lines = append(lines, x.Line)
				}
				a, b := direct(ctxc), throughPipe(dir, lines)
				atomic.AddInt64(&differ, 1)
				run.Violation("C07:"+c.Form+":"+c.Tag+":after-other-lines", map[string]any{"cases": ctxc},
					fmt.Sprintf("the %d lines %q delivered through the pipe one after the other give\n%sbut their (pid, message) pairs handed to the processor directly give\n%s(each line alone agrees: the last line's result depends on the lines before it)", len(lines), lines, b.canon(), a.canon()))
			}
		}()
	}
	for i := 0; i < len(all); i += batch {
		if run.Expired() {
			complete = false
			break
		}
		j := i + batch
		if j > len(all) {
			j = len(all)
		}
		jobs <- all[i:j]
	}
	// consecutive lines whose pid tokens are prefixes / extensions of each other (4096, then 40961, then 4 ...): what a
	// line's pid is does not depend on the line before it
	{
		var seq []c07case
		toks := []string{"4096", "40961", "4", "40", "409", "4096", "40960", "4096", "1", "10", "100", "1000", "10000", "100000", "1", "77", "778", "7"}
		for i, tk := range toks {
			msg := fmt.Sprintf("Accepted password for user%d from 10.3.0.%d port %d ssh2", i, i+1, 2000+i)
			if i%3 == 2 {
				msg = fmt.Sprintf("Failed password for invalid user guest%d from 10.3.0.%d port %d ssh2", i, i+1, 2000+i)
			}
			seq = append(seq, c07case{"pid-token-sequence", tk, msg, tk + " " + msg + "\n", "newline"})
		}
		all = append(all, seq...)
		jobs <- seq
	}
	// "padding between PID and message is ignored": every amount of it from 1 to 70 blanks and around the powers
	// of two up to 5 000, for one message of every form
	{
		pads := []int{100, 127, 128, 129, 255, 256, 257, 511, 512, 513, 1000, 1023, 1024, 1025, 4096, 5000}
		for n := 1; n <= 70; n++ {
			pads = append(pads, n)
		}
		seenForm := map[string]bool{}
		var sweep []c07case
		for _, c := range all {
			if seenForm[c.Form] || c.Tag != "newline" || strings.Contains(c.Form, "/") {
				continue
			}
			seenForm[c.Form] = true
			for _, n := range pads {
				sweep = append(sweep, c07case{c.Form, c.Pid, c.Msg, c.Pid + strings.Repeat(" ", n) + c.Msg + "\n", fmt.Sprintf("padding-%d", n)})
			}
		}
		all = append(all, sweep...)
		for i := 0; i < len(sweep); i += batch {
			j := i + batch
			if j > len(sweep) {
				j = len(sweep)
			}
			jobs <- sweep[i:j]
		}
	}
	close(jobs)
	wg.Wait()
	n := len(all)
	// a writer that stalls in the middle of a record (0.3 s; thorough also 1.5 s): one representative per form
	pauses := []time.Duration{300 * time.Millisecond}
	if run.Thorough() {
		pauses = append(pauses, 1500*time.Millisecond)
	}
	seenForm := map[string]bool{}
	var reps []c07case
	for _, c := range all {
		if !seenForm[c.Form] && c.Tag == "newline" {
			seenForm[c.Form] = true
			reps = append(reps, c)
		}
	}
	var pwg sync.WaitGroup
	for _, pz := range pauses {
		for i := range reps {
			pwg.Add(1)
			go func(pz time.Duration, cs []c07case) {
				defer pwg.Done()
				var lines []string
				for _, c := range cs {
					lines = append(lines, c.Line)
				}
				a, b := direct(cs), throughPipeSplit(dir, lines, pz)
				if a.canon() != b.canon() {
					c := cs[len(cs)-1]
					atomic.AddInt64(&differ, 1)
					run.Violation("C07:"+c.Form+":writer-pauses-mid-record", map[string]any{"cases": cs, "pause_ms": pz.Milliseconds()},
						fmt.Sprintf("the lines %q written to the pipe with a pause of %v in the middle of the last one give\n%sbut their (pid, message) pairs handed to the processor directly give\n%s", lines, pz, b.canon(), a.canon()))
				}
			}(pz, reps[max0(i-1):i+1])
		}
	}
	pwg.Wait()
	n += len(reps) * len(pauses)
	if m := <-lateRes; m != "" {
		atomic.AddInt64(&differ, 1)
		run.Violation("C07:accepted-password:correlator-late", map[string]any{"wait_s": lateWait.Seconds()}, "an accepted login written to the pipe while the correlator is busy: "+m)
	}
	n++
	// audit side: every record line of the audit generator parses identically with and without its newline
	na, bad := auditLinesSame(run)
	cov := mc.Coverage{Level: "exploration", Evaluations: n*2 + na*2, Distinct: n/len(framings) + na, Exhaustive: complete, Samples: sm.samples,
		Rule:  "differential, end to end: every (pid,message) of the C06 product (+ messages with internal runs of blanks) is processed once directly by the real sshd processor and once written as a framed line to a real FIFO read by the real SyslogIngester.Ingest (named-pipe ingester -> syslog ingester -> processor); framings: '<pid> <msg>\\n', 3 padding blanks, the message ending in blank / tab / CR, and the message without its pid prefix right after ordinary lines (its first word then IS the pid token); lines go in batches of 400, a differing batch is re-run line by line; an accepted login is written while the correlator takes nothing for 12 s (thorough: 75 s) of real time and must still be waiting for it; one line per form is also written with a pause of 0.3 s (thorough: 1.5 s) in the middle of the record; events (minus wall-clock stamp), forwarded logins, counter deltas and errors must be equal. Every generated audit record line is parsed by auparse with and without its trailing newline. distinct_nontrivial = distinct (pid,message) pairs + distinct audit lines",
		Extra: map[string]any{"lines_per_form": sm.forms, "framings": len(framings), "batches": batches, "pairs_that_differ": differ, "audit_lines": na, "audit_lines_differing": bad}}
	cov.Assumptions = []string{"which layer strips the record terminator is not assumed: the framed path starts at the pipe"}
	return run.Finish(cov)
}

// ---------------------------------------------------------------- C11 / C19 (garbage half)

var tokens = []string{
	// dispatch keywords / prefixes
	"Accepted publickey", "Accepted password", "Certificate invalid", "Invalid user", "User ",
	"ROOT LOGIN REFUSED FROM ", "Authentication refused for ", "Nasty PTR record \"", "reverse mapping checking getaddrinfo for ",
	"Address ", "maximum authentication attempts exceeded for ", "Authentication key ", "Error checking authentication key ", "Failed password for ",
	// connectives and separators of the regular expressions
	" for ", " from ", " port ", " ssh2", ": ", "ID ", " (serial ", ")", " CA ", ":", " not allowed because ", "\"",
	// atoms and hostile bytes
	"a", "1", " ", "\x00", "\xff\xfe", "\n",
}

// connectives are the separators the regular expressions split on.
var connectives = []string{" for ", " from ", " port ", " ssh2", ": ", "ID ", " (serial ", ")", " CA ", ":", " not allowed because ", "\"", "invalid user "}

var placeholders = map[string]bool{"unknown": true, "root": true, "unknown reason": true}

// checkC11 is the oracle for arbitrary lines.
func checkC11(pid, line string, o obs) string {
	if o.Panic != nil {
		return fmt.Sprintf("panic: %v", o.Panic)
	}
	if o.Err != nil {
		return fmt.Sprintf("error returned: %v", o.Err)
	}
	if len(o.Events) > 1 {
		return fmt.Sprintf("%d events for one line", len(o.Events))
	}
	if len(o.Logins) > 1 {
		return fmt.Sprintf("%d logins forwarded for one line", len(o.Logins))
	}
	if len(o.Logins) == 1 {
		if len(o.Events) != 1 || o.Events[0].Outcome != "succeeded" {
			return "a login was forwarded without a succeeded event"
		}
		if len(o.Ptrs) > 0 && o.Logins[0].Source != o.Ptrs[0] {
			return "the forwarded login does not carry the event that was written"
		}
	}
	if len(o.Events) == 0 {
		return ""
	}
	if !hasKeyword(line) {
		return "an event was emitted for a line that begins with no recognised keyword"
	}
	e := o.Events[0]
	check := func(where, v string) string {
		// the data member is JSON produced by the code under test, and JSON
		// cannot carry invalid UTF-8: a value counts as a verbatim substring
		// if it is encoding/json's rendering (each invalid byte -> U+FFFD)
		// of some byte substring of the line
		if placeholders[v] || strings.Contains(line, v) || coercedSubstring(line, v) {
			return ""
		}
		return fmt.Sprintf("%s = %q is neither a substring of the line nor a placeholder", where, v)
	}
	for k, v := range e.Subjects {
		if k == "pid" {
			if v != pid {
				return fmt.Sprintf("subjects.pid = %q, the pid token is %q", v, pid)
			}
			continue
		}
		if m := check("subjects."+k, v); m != "" {
			return m
		}
	}
	if m := check("source.value", e.Source.Value); m != "" {
		return m
	}
	for k, v := range e.Source.Extra {
		if m := check("source.extra."+k, fmt.Sprint(v)); m != "" {
			return m
		}
	}
	for k, v := range e.Metadata.Extra {
		if m := check("metadata.extra."+k, fmt.Sprint(v)); m != "" {
			return m
		}
	}
	if e.Data != nil {
		dm, ok := dataMap(&e)
		if !ok {
			return "event data is not a JSON object of strings: " + string(*e.Data)
		}
		for k, v := range dm {
			if k == "error" && v == "certificate invalid" {
				continue
			}
			if m := check("data."+k, v); m != "" {
				return m
			}
		}
	}
	return ""
}

// garbage enumerates (i) all token strings up to k tokens, (ii) systematic
// mutations of every valid line, (iii) odd pid tokens on valid lines.
func garbage(k int, longLen int, s sets, light bool, emit func(item)) {
	toks := append(append([]string{}, tokens...), strings.Repeat("A", longLen))
	var rec func(prefix string, depth int)
	rec = func(prefix string, depth int) {
		for _, t := range toks {
			l := prefix + t
			emit(item{x: Exp{Line: l, Form: "tokens"}, pid: "77"})
			if depth+1 < k {
				rec(l, depth+1)
			}
		}
	}
	emit(item{x: Exp{Line: "", Form: "tokens"}, pid: "77"})
	rec("", 0)
	// lines (and pid tokens) whose length is around a power of two and whose last character is a multi-byte one that
	// starts just before, at or after that boundary: whatever cuts, pads or abbreviates text at such a length meets
	// the middle of a character
	for _, kw := range append(append([]string{}, keywords...), "junk ") {
		for _, pow := range []int{64, 128, 256, 512, 1024, 2048, 4096, 8192} {
			for d := -3; d <= 3; d++ {
				for _, tail := range []string{"é", "€", "😀", "\xc3", "\xa9\xa9\xa9"} {
					n := pow + d - len(tail)
					if n <= len(kw) {
						continue
					}
					l := kw + strings.Repeat("x", n-len(kw)) + tail
					emit(item{x: Exp{Line: l, Form: "long-multibyte-tail"}, pid: "77"})
					if pow <= 1024 {
						emit(item{x: Exp{Line: kw + "for a from 1.2.3.4 port 22 ssh2", Form: "long-multibyte-tail"}, pid: l[len(kw):]})
					}
				}
			}
		}
	}
	// (ii) mutations of valid lines
	seenLine := map[string]bool{}
	forms(s, func(x Exp) {
		if seenLine[x.Line] {
			return
		}
		seenLine[x.Line] = true
		l := x.Line
		parts := strings.Split(l, " ")
		if !light {
			for i := 0; i < len(l); i++ { // every byte truncation
				emit(item{x: Exp{Line: l[:i], Form: "truncation"}, pid: "77"})
			}
			for i := range parts { // delete / duplicate each token
				del := append(append([]string{}, parts[:i]...), parts[i+1:]...)
				emit(item{x: Exp{Line: strings.Join(del, " "), Form: "token-deleted"}, pid: "77"})
				dup := append(append(append([]string{}, parts[:i+1]...), parts[i]), parts[i+1:]...)
				emit(item{x: Exp{Line: strings.Join(dup, " "), Form: "token-duplicated"}, pid: "77"})
				// the token emptied (two blanks in a row where it stood) and replaced by a lone blank (three)
				for _, fill := range []string{"", " "} {
					bl := append(append(append([]string{}, parts[:i]...), fill), parts[i+1:]...)
					emit(item{x: Exp{Line: strings.Join(bl, " "), Form: "token-blanked"}, pid: "4711"})
				}
			}
			// words (runs of letters, digits and _ . / + = -) emptied one at a time and two neighbours at a time,
			// punctuation and blanks left where they are: 'ssh2: RSA SHA256:abc' -> 'ssh2:  SHA256:abc', 'ssh2:  :abc'
			toks := wordRE.FindAllString(l, -1)
			var widx []int
			for i, tk := range toks {
				if wordRE1.MatchString(tk) {
					widx = append(widx, i)
				}
			}
			for k := range widx {
				for span := 1; span <= 2 && k+span <= len(widx); span++ {
					cp := append([]string{}, toks...)
					for _, wi := range widx[k : k+span] {
						cp[wi] = ""
					}
					emit(item{x: Exp{Line: strings.Join(cp, ""), Form: "word-blanked"}, pid: "4711"})
				}
			}
			// one byte written as an escape sequence (sshd's vis(3) octal, rsyslog's control-character escape, ...):
			// the first byte of every token and every blank between tokens. The line is what it is - an escape is
			// not the byte it stands for, neither in the keyword nor in a value
			for i := 0; i < len(l); i++ {
				if !(l[i] == ' ' || i == 0 || l[i-1] == ' ') {
					continue
				}
				for _, enc := range escapeForms {
					emit(item{x: Exp{Line: l[:i] + fmt.Sprintf(enc, l[i]) + l[i+1:], Form: "byte-escaped"}, pid: "4711"})
				}
			}
			for i := 1; i < len(parts); i++ { // every connective / separator inserted at every token boundary
				for _, c := range connectives {
					ins := strings.Join(parts[:i], " ") + " " + strings.TrimSpace(c) + " " + strings.Join(parts[i:], " ")
					emit(item{x: Exp{Line: ins, Form: "connective-inserted"}, pid: "77"})
				}
			}
		}
		for _, kw := range keywords { // keyword swap
			for _, kw2 := range keywords {
				if strings.HasPrefix(l, kw) && kw != kw2 {
					emit(item{x: Exp{Line: kw2 + l[len(kw):], Form: "keyword-swapped"}, pid: "77"})
				}
			}
		}
		emit(item{x: Exp{Line: "junk " + l, Form: "prefixed"}, pid: "77"})
		emit(item{x: Exp{Line: " " + l, Form: "prefixed"}, pid: "77"})
		emit(item{x: Exp{Line: l + "\n", Form: "suffixed"}, pid: "77"})
		emit(item{x: Exp{Line: l + " " + l, Form: "doubled"}, pid: "77"})
		emit(item{x: Exp{Line: l + "\x00", Form: "suffixed"}, pid: "77"})
		// rsyslog's repeated-message reduction wraps the message; the wrapped line begins with no sshd keyword
		emit(item{x: Exp{Line: "message repeated 2 times: [ " + l + "]", Form: "repeated-wrapper"}, pid: "77"})
		emit(item{x: Exp{Line: "message repeated 17 times: [ " + l + "]", Form: "repeated-wrapper"}, pid: "77"})
		// what sshd's pre-authentication child really appends to its messages
		emit(item{x: Exp{Line: l + " [preauth]", Form: "preauth-marker"}, pid: "77"})
		emit(item{x: Exp{Line: l + " [preauth] [preauth]", Form: "preauth-marker"}, pid: "77"})
		for _, p := range []string{"", "0", "-1", "abc", "1e3", "99999999999999999999", " 5", "+5"} { // (iii)
			emit(item{x: Exp{Line: l, Form: "odd-pid"}, pid: p})
		}
	})
}

// escapeForms: how one byte may be written as printable text
var escapeForms = []string{`\%03o`, `#%03o`}

func runGarbage(t *testing.T, run *mc.Run, prop string) int {
	if prop == "C19" && os.Getenv("VERIF_RACE_CHILD") != "" {
		return c19RaceChild()
	}
	k, long := 3, 2000
	escapeForms = []string{`\%03o`, `#%03o`}
	if run.Thorough() {
		k, long = 4, 10000
		escapeForms = []string{`\%03o`, `#%03o`, `\x%02x`, `%%%02X`, `\u%04x`, `&#%d;`}
	}
	if prop == "C19" && !run.Thorough() {
		k = 2
	}
	s := fieldSets(false)
	if !run.Thorough() {
		// quick: the valid lines that are mutated range over two to four values per field (plain and awkward ones)
		s.users = []string{"a", "a.b-c_d@e$", "adm\xff\xfein"}
		s.addrs = []string{"1.2.3.4", "fe80::1%eth0", "FE80::0001"}
		s.keytypes = []string{"RSA", "ED25519", "XMSS"}
		s.serials = []string{"0", "18446744073709551616"}
		s.keyids = []string{"k", "a b", "x (serial 7)", "two  blanks"}
	}
	var sm sampler
	var keyworded, emitted int64
	if run.Replay != "" && prop == "C19" {
		var rp struct{ Pid, Line, Order string }
		if _, err := mc.LoadReplay(run.Replay, &rp); err == nil && rp.Order != "" {
			var o c05obs
			_ = oneC05obs(t, Exp{Line: rp.Line, Login: true}, rp.Pid, rp.Order, &o)
			msg := checkC19(rp.Line, obs{Events: o.Events, Metrics: o.Metrics}, true)
			fmt.Printf("order %s: events written %d, counters %s: %s\n", rp.Order, len(o.Events), renderDelta(o.Metrics), msg)
			if msg != "" {
				fmt.Printf("VIOLATION property=C19 replay=%s\n", run.Replay)
				return 1
			}
			return 0
		}
	}
	replayLine, replayPid := loadLineReplay(run)
	if replayLine != "" || run.Replay != "" {
		return replayOne(run, replayLine, replayPid)
	}
	n, complete := parallel(func(emit func(item)) {
		garbage(k, long, s, prop == "C19" && !run.Thorough(), emit)
		if prop == "C19" {
			fs := fieldSets(run.Thorough())
			forms(fs, func(x Exp) { emit(item{x: x, pid: "4711"}) })
		}
	}, func(r *rig, it item) {
		r.noMetrics = prop == "C11"
		o := r.run(true, it.pid, it.x.Line, "")
		kw := hasKeyword(it.x.Line)
		if kw {
			atomic.AddInt64(&keyworded, 1)
		}
		if len(o.Events) > 0 {
			atomic.AddInt64(&emitted, 1)
		}
		if len(it.x.Line) < 200 {
			sm.add(it.x.Form, it.x.Line)
		}
		var msg string
		if prop == "C11" {
			msg = checkC11(it.pid, it.x.Line, o)
		} else {
			msg = checkC19(it.x.Line, o, kw)
		}
		if msg != "" {
			l := it.x.Line
			if len(l) > 300 {
				l = l[:300] + "..."
			}
			run.Violation(prop+":"+it.x.Form+":"+firstWords(msg, 3), map[string]any{"pid": it.pid, "line": it.x.Line},
				fmt.Sprintf("pid %q line %q: %s\nemitted: %v logins: %d metrics: %s", it.pid, l, msg, o.Raw, len(o.Logins), renderDelta(o.Metrics)))
		}
	}, run.Expired)
	pipedLines := int64(0)
	if prop == "C11" {
		// the same judgement on lines as the log writer delivers them: each line alone through a real FIFO into the
		// real syslog ingester (it, too, must not turn an unrecognised line into a recognised one or rewrite a
		// field). Token strings of <= 2 tokens and the light mutations of every valid line; lines containing a
		// newline are several lines to the transport and are left out; pid and message are separated by one blank.
		var sub []item
		garbage(2, 300, s, true, func(it item) {
			if !strings.ContainsAny(it.x.Line, "\n") && it.pid != "" && !strings.ContainsAny(it.pid, " \n") && !strings.HasPrefix(it.x.Line, " ") {
				sub = append(sub, it)
			}
		})
		if len(sub) > 40000 {
			sub = sub[:40000]
		}
		dir := os.Getenv("VERIF_BUILD")
		if dir == "" {
			dir = os.TempDir()
		}
		dir = filepath.Join(dir, "c11-fifos")
		_ = os.MkdirAll(dir, 0o755)
		jobs := make(chan item, 256)
		var wg sync.WaitGroup
		for wk := 0; wk < runtime.GOMAXPROCS(0); wk++ {
			wg.Add(1)
			go func() {
				defer wg.Done()
				for it := range jobs {
					o := throughPipe(dir, []string{it.pid + " " + it.x.Line + "\n"})
					atomic.AddInt64(&pipedLines, 1)
					if msg := checkC11(it.pid, it.x.Line, o); msg != "" {
						l := it.x.Line
						if len(l) > 300 {
							l = l[:300] + "..."
						}
						run.Violation(prop+":"+it.x.Form+":through-the-pipe:"+firstWords(msg, 3), map[string]any{"cases": []c07case{{Form: it.x.Form, Pid: it.pid, Msg: it.x.Line, Line: it.pid + " " + it.x.Line + "\n"}}},
							fmt.Sprintf("pid %q line %q written to the sshd pipe: %s (events: %d, logins: %d)", it.pid, l, msg, len(o.Events), len(o.Logins)))
					}
				}
			}()
		}
		for _, it := range sub {
			if run.Expired() {
				complete = false
				break
			}
			jobs <- it
		}
		close(jobs)
		wg.Wait()
		n += pipedLines
	}
	handoffs := 0
	if prop == "C19" {
		// the counter follows the EVENT, not the hand-off of the login: every accepted-authentication line under
		// every environment order of C05 in which the event is written (receiver ready, receiver late, nobody
		// receives and the context is cancelled while the call is parked, context cancelled beforehand)
		fs := fieldSets(false)
		fs.users, fs.addrs, fs.keytypes = fs.users[:2], fs.addrs[:2], fs.keytypes[:2]
		forms(fs, func(x Exp) {
			if !x.Login || run.Expired() {
				return
			}
			for _, ord := range []string{"receiver-first", "receiver-late", "never-cancel", "cancelled-before"} {
				var o c05obs
				_ = oneC05obs(t, x, "4711", ord, &o)
				handoffs++
				ob := obs{Events: o.Events, Metrics: o.Metrics}
				if msg := checkC19(x.Line, ob, true); msg != "" {
					run.Violation("C19:"+x.Form+":"+ord+":"+firstWords(msg, 3), map[string]any{"Pid": "4711", "Line": x.Line, "Order": ord, "Login": true, "Cred": x.Cred},
						fmt.Sprintf("line %q, environment order %s: %s (events written: %d, counters: %s)", x.Line, ord, msg, len(o.Events), renderDelta(o.Metrics)))
				}
			}
		})
		n += int64(handoffs)
		// (v) a transient fault: the first write of a line's event fails with EINTR / EAGAIN (or another error),
		// later writes succeed. Whether the code gives up or tries again: an emitted event is counted once.
		tr := newRig(8)
		forms(fs, func(x Exp) {
			for kind := range failKinds {
				for _, nfail := range []int{1, 2} {
					tr.rec.failN, tr.rec.kind = nfail, kind
					o := tr.run(true, "4711", x.Line, "")
					tr.rec.failN = 0
					n++
					if msg := checkC19(x.Line, o, true); msg != "" {
						run.Violation("C19:"+x.Form+":transient-write-failure:"+firstWords(msg, 3), map[string]any{"pid": "4711", "line": x.Line, "fail_first": nfail, "kind": kind},
							fmt.Sprintf("line %q, the first %d write(s) of its event fail with %q: %s (events emitted: %d, counters: %s)", x.Line, nfail, failKinds[kind], msg, len(o.Events), renderDelta(o.Metrics)))
					}
				}
			}
		})
	}
	cov := mc.Coverage{Level: "exploration", Evaluations: int(n), Distinct: int(keyworded), Exhaustive: complete, Samples: sm.samples,
		Rule:  fmt.Sprintf("(i) every string of <=%d tokens over a %d-token alphabet (all dispatch keywords, every connective/separator of the regular expressions, NUL, invalid UTF-8, newline, a %d-byte run); (ii) for every valid line of the reduced C06 product: every byte truncation, every single-token deletion, duplication and blanking, every word and every pair of neighbouring words emptied, every connective inserted at every token boundary, every keyword swap, junk prefix/suffix, doubling; (iii) 8 odd pid tokens on every valid line; each through the real ProcessSshdLogEntry under recover. distinct_nontrivial = lines that begin with a dispatch keyword (reach a regular expression)", k, len(tokens)+1, long),
		Extra: map[string]any{"lines_per_class": sm.forms, "lines_with_keyword": keyworded, "lines_that_emitted_an_event": emitted, "token_bound": k}}
	if prop == "C11" {
		cov.Rule += "; and the token strings of <= 2 tokens plus the light mutations of every valid line once more, each alone, as a line written to a real FIFO read by the real syslog ingester"
		cov.Extra["lines_through_the_pipe"] = pipedLines
	}
	if prop == "C19" {
		cov.Rule += "; (iv) every accepted-authentication line x the C05 environment orders {receiver ready, receiver late, never received + cancelled while parked, cancelled beforehand} in a synctest bubble: the counter moves with the written event whatever becomes of the login hand-off; (v) every form with the first one or two writes of its event failing (plain error, and errors matching context.Canceled / EOF / DeadlineExceeded / EINTR / EAGAIN) and later writes succeeding: an emitted event is counted once"
		cov.Extra["handoff_order_executions"] = handoffs
		cov.Rule += "; (vi) a free-running pass under the race detector: the lines of every form processed while a second goroutine uses the same metrics provider the way the daemon's audit.log watcher does (finds unsynchronised state shared between the provider's methods; sampling of schedules, used only for that)"
		if run.Replay == "" {
			c19RacePass(run, &cov)
		}
	}
	return run.Finish(cov)
}

// ---------------------------------------------------------------- C19 (valid half is folded into runGarbage)

// ---------------------------------------------------------------- C17

var nameTokens = []string{"a", " ", "from", "port", " from ", " port ", "1.2.3.4", "9.9.9.9", "22", "ssh2", "invalid user ", "é", "\""}

// extTokens: literal fragments of sshd's own message grammar and decorations that a parser may key on
// (explored to a smaller depth together with the base tokens).
var extTokens = []string{" [preauth]", " ssh2", ": ", "Invalid user ", "Failed password for ", "User ", " not allowed because ",
	"maximum authentication attempts exceeded for ", "Accepted password for ", "\t", "\r", "(", ")", "[", "]", "%", ",", "#012"}

func runC17(run *mc.Run) int {
	k, kext := 3, 2
	if run.Thorough() {
		k, kext = 5, 3
	}
	peers := []string{"10.0.0.1", "::1", "fe80::1%eth0", "UNKNOWN"} // (UNKNOWN: what sshd prints when it cannot tell)
	ports := []string{"1", "65535"}
	var sm sampler
	var embedded int64
	replayLine, replayPid := loadLineReplay(run)
	if run.Replay != "" {
		return replayOne(run, replayLine, replayPid)
	}
	gen := func(k, kext int, emit func(item)) {
		names := map[string]bool{"": true}
		var rec func(prefix string, d int)
		rec = func(prefix string, d int) {
			for _, t := range nameTokens {
				nm := prefix + t
				if len(nm) > 100 {
					continue
				}
				names[nm] = true
				if d+1 < k {
					rec(nm, d+1)
				}
			}
		}
		rec("", 0)
		all := append(append([]string{}, nameTokens...), extTokens...)
		var rec2 func(prefix string, d int)
		rec2 = func(prefix string, d int) {
			for _, t := range all {
				nm := prefix + t
				if len(nm) > 100 {
					continue
				}
				names[nm] = true
				if d+1 < kext {
					rec2(nm, d+1)
				}
			}
		}
		rec2("", 0)
		// a well-formed forged suffix, and a 100-byte name
		names["x from 9.9.9.9 port 1"] = true
		names["x from 9.9.9.9 port 1 ssh2"] = true
		names[strings.Repeat("n", 100)] = true
		// names that are themselves complete accepted-login messages
		names["Accepted password for root from 9.9.9.9 port 22 ssh2"] = true
		names["Accepted publickey for root from 9.9.9.9 port 22 ssh2: RSA SHA256:abc"] = true
		names["x Accepted password for root from 9.9.9.9 port 22 ssh2 y"] = true
		// ... dressed up as a line of their own in other syslog layouts
		names["sshd[99]: Accepted password for root from 9.9.9.9 port 22 ssh2"] = true
		names["sshd-session[99]: Accepted publickey for root from 9.9.9.9 port 22 ssh2: RSA SHA256:abc"] = true
		names["host sshd[99]: Accepted password for root from 9.9.9.9 port 22 ssh2"] = true
		names["<38>Oct  4 09:00:00 host sshd[99]: Accepted password for root from 9.9.9.9 port 22 ssh2"] = true
		names["99 Accepted password for root from 9.9.9.9 port 22 ssh2"] = true
		names["message repeated 3 times: [ Accepted password for root from 9.9.9.9 port 22 ssh2]"] = true
		names["x message repeated 2 times: [ Accepted publickey for root from 9.9.9.9 port 22 ssh2: RSA SHA256:abc] y"] = true
		// letters whose lower- or upper-case form has another length in UTF-8 (Kelvin sign, dotted capital I, U+023A,
		// capital sharp s): whoever computes offsets on a case-folded copy and uses them on the original is off
		for _, nm := range []string{"\u212aevin", "\u0130stanbul", "\u1e9e", strings.Repeat("\u023a", 12), "x\u023a\u023a y",
			strings.Repeat("\u212a", 14) + "66.6.6.6 port 31337 zz", strings.Repeat("\u212a", 7) + " from 66.6.6.6 port 31337", "\u2126hm \u212bngstr\u00f6m"} {
			names[nm] = true
		}
		// ... or are other lines that are really logged under sshd's tag (PAM's among them), alone and after a word
		for _, l := range append(append([]string{}, otherSshdLines...),
			"pam_unix(sshd:auth): authentication failure; logname= uid=0 euid=0 tty=ssh ruser= rhost=9.9.9.9  user=root",
			"PAM 2 more authentication failures; logname= uid=0 euid=0 tty=ssh ruser= rhost=9.9.9.9  user=root") {
			if len(l) <= 98 {
				names[l] = true
				names["x "+l] = true
			}
			if f := strings.Fields(l); len(f) > 1 {
				names["x "+f[0]+" y"] = true // (its first word only, in the middle of a name)
			}
		}
		for nm := range names {
			for _, peer := range peers {
				for _, port := range ports {
					for _, f := range []struct{ form, line string }{
						{"invalid-user", fmt.Sprintf("Invalid user %s from %s port %s", nm, peer, port)},
						{"failed-password", fmt.Sprintf("Failed password for %s from %s port %s ssh2", nm, peer, port)},
						{"failed-password-invalid", fmt.Sprintf("Failed password for invalid user %s from %s port %s ssh2", nm, peer, port)},
						{"max-auth-attempts", fmt.Sprintf("maximum authentication attempts exceeded for %s from %s port %s ssh2", nm, peer, port)},
						{"max-auth-attempts-invalid", fmt.Sprintf("maximum authentication attempts exceeded for invalid user %s from %s port %s ssh2", nm, peer, port)},
					} {
						emit(item{x: Exp{Form: f.form, Line: f.line, Source: peer, Port: port, LoggedAs: nm}, pid: "4711"})
					}
				}
			}
		}
	}
	judge := func(it item, o obs, via string) {
		msg := ""
		switch {
		case o.Panic != nil || o.Err != nil:
			msg = fmt.Sprintf("panic/error: %v %v", o.Panic, o.Err)
		case len(o.Events) == 0:
			msg = "dropped: no event recorded for this failed attempt"
		case len(o.Events) > 1:
			msg = "more than one event"
		case o.Events[0].Type != "UserLogin" || o.Events[0].Outcome != "failed":
			msg = "event is not a failed UserLogin"
		case o.Events[0].Source.Value != it.x.Source || fmt.Sprint(o.Events[0].Source.Extra["port"]) != it.x.Port:
			msg = fmt.Sprintf("forged: recorded source %s port %v, sshd observed %s port %s", o.Events[0].Source.Value, o.Events[0].Source.Extra["port"], it.x.Source, it.x.Port)
		case len(o.Logins) != 0:
			msg = "a login was forwarded for a failed attempt"
		}
		if msg != "" {
			run.Violation("C17:"+it.x.Form+":"+via+firstWords(msg, 1), map[string]any{"pid": it.pid, "line": it.x.Line, "via": via},
				fmt.Sprintf("user name %q, line %q %s: %s\nemitted: %v", it.x.LoggedAs, it.x.Line, via, msg, o.Raw))
		}
	}
	n, complete := parallel(func(emit func(item)) { gen(k, kext, emit) }, func(r *rig, it item) {
		o := r.run(true, it.pid, it.x.Line, "")
		if strings.Contains(it.x.LoggedAs, " from ") || strings.Contains(it.x.LoggedAs, " port ") {
			atomic.AddInt64(&embedded, 1)
		}
		sm.add(it.x.Form, it.x.Line)
		judge(it, o, "")
	}, run.Expired)
	// the same lines as the log writer delivers them: written to a real FIFO read by the real syslog ingester
	// (whatever the transport does to a line - splitting, unescaping, trimming - is part of what a client's
	// name must not be able to exploit); names without CR (a CR would not survive rsyslog's own escaping).
	var piped []item
	gen(3, 2, func(it item) {
		if !strings.ContainsAny(it.x.LoggedAs, "\r\n") {
			piped = append(piped, it)
		}
	})
	dir := os.Getenv("VERIF_BUILD")
	if dir == "" {
		dir = os.TempDir()
	}
	dir = filepath.Join(dir, "c17-fifos")
	_ = os.MkdirAll(dir, 0o755)
	var pwg sync.WaitGroup
	pjobs := make(chan []item, 32)
	var npiped int64
	for wk := 0; wk < runtime.GOMAXPROCS(0); wk++ {
		pwg.Add(1)
		go func() {
			defer pwg.Done()
			for its := range pjobs {
				var lines []string
				for _, it := range its {
					lines = append(lines, it.pid+" "+it.x.Line+"\n")
				}
				o := throughPipe(dir, lines)
				atomic.AddInt64(&npiped, int64(len(its)))
				if len(o.Events) == len(its) && o.Panic == nil && len(o.Logins) == 0 {
					for i, it := range its {
						judge(it, obs{Events: o.Events[i : i+1]}, "through-the-pipe:")
					}
					continue
				}
				for _, it := range its { // some line yields no event, several, or a login: each line alone
					o := throughPipe(dir, []string{it.pid + " " + it.x.Line + "\n"})
					for _, ev := range o.Events {
						j, _ := json.Marshal(ev)
						o.Raw = append(o.Raw, string(j))
					}
					judge(it, o, "through-the-pipe:")
				}
			}
		}()
	}
	const pbatch = 500
	for i := 0; i < len(piped) && !run.Expired(); i += pbatch {
		j := i + pbatch
		if j > len(piped) {
			j = len(piped)
		}
		pjobs <- piped[i:j]
	}
	close(pjobs)
	pwg.Wait()
	n += npiped
	// names chosen so that the whole line has the 32-bit checksum (FNV-1a, FNV-1, CRC-32) of an earlier line of the
	// same form from another peer - found by meet-in-the-middle in 0.1 s, so well within a client's means: the
	// earlier line, then the colliding one, on one processor; the second attempt is recorded with ITS peer
	for _, h := range collide.Hashes {
		for _, f := range []struct{ form, head, tail string }{
			{"invalid-user", "Invalid user ", ""},
			{"failed-password", "Failed password for ", " ssh2"},
			{"failed-password-invalid", "Failed password for invalid user ", " ssh2"},
			{"max-auth-attempts", "maximum authentication attempts exceeded for ", " ssh2"},
			{"max-auth-attempts-invalid", "maximum authentication attempts exceeded for invalid user ", " ssh2"},
		} {
			first := f.head + "alice from 10.0.0.1 port 1" + f.tail
			x := h.Fill(first, f.head+"mallory-", " from 203.0.113.77 port 65535"+f.tail)
			if x == "" {
				continue
			}
			second := f.head + "mallory-" + x + " from 203.0.113.77 port 65535" + f.tail
			r := newRig(4)
			judge(item{x: Exp{Form: f.form, Line: first, Source: "10.0.0.1", Port: "1", LoggedAs: "alice"}, pid: "4711"}, r.run(true, "4711", first, ""), "")
			judge(item{x: Exp{Form: f.form, Line: second, Source: "203.0.113.77", Port: "65535", LoggedAs: "mallory-" + x}, pid: "4712"}, r.run(true, "4712", second, ""), "after-a-line-with-the-same-"+h.Name+"-checksum:")
			n += 2
			sm.add(f.form+"/checksum-collision", second)
		}
	}
	cov := mc.Coverage{Level: "exploration", Evaluations: int(n), Distinct: int(embedded), Exhaustive: complete, Samples: sm.samples,
		Rule:  fmt.Sprintf("user names = every string of <=%d tokens over %q, every string of <=%d tokens over those plus %d fragments of sshd's own message grammar (' [preauth]', ': ', 'Invalid user ', ...), capped at 100 bytes (sshd's %%.100s), plus the empty name and hand-made forgeries, x 4 peers (IPv4, IPv6, IPv6 with zone, UNKNOWN) x 2 ports x 5 message forms, through the real ProcessSshdLogEntry, and (names of <=3 / <=2 tokens without CR) again as lines written to a real FIFO read by the real syslog ingester; plus, per form, a line whose name makes its FNV-1a / FNV-1 / CRC-32 checksum equal that of the line processed just before it from another peer; oracle: exactly one failed UserLogin whose source and port are the ones sshd appended. distinct_nontrivial = lines whose user name embeds ' from ' or ' port '", k, nameTokens, kext, len(extTokens)),
		Extra: map[string]any{"lines_per_form": sm.forms, "token_bound": k}}
	return run.Finish(cov)
}

// coerceUTF8 replaces every invalid byte by U+FFFD like encoding/json does.
func coerceUTF8(s string) string {
	var b strings.Builder
	for i := 0; i < len(s); {
		r, n := utf8.DecodeRuneInString(s[i:])
		if r == utf8.RuneError && n == 1 {
			b.WriteString("\ufffd")
		} else {
			b.WriteString(s[i : i+n])
		}
		i += n
	}
	return b.String()
}

// coercedSubstring reports whether v == coerceUTF8(line[i:j]) for some i<=j.
func coercedSubstring(line, v string) bool {
	if !strings.Contains(v, "\ufffd") {
		return false
	}
	for i := 0; i <= len(line); i++ {
		c := coerceUTF8(line[i:])
		if strings.HasPrefix(c, v) {
			return true
		}
		if len(line) <= 300 {
			for j := i; j <= len(line); j++ {
				if coerceUTF8(line[i:j]) == v {
					return true
				}
			}
		}
	}
	return false
}

// otherSshdLines: lines sshd really prints that the daemon does not turn into events.
var otherSshdLines = []string{
	"Partial publickey for a from 1.2.3.4 port 22 ssh2: ED25519-CERT SHA256:YI+caZKJCNaXgsD0NvRZ2fLaEeF46cEVyadru/SL76o ID remembered-key-id (serial 7) CA ED25519 SHA256:Pcs5TWfcOSKb7Rw/XyvHfUcaQzmw6HtLrjUoyXuzIj8",
	"Postponed publickey for a from 1.2.3.4 port 22 ssh2 [preauth]",
	"Connection from 1.2.3.4 port 22 on 10.0.0.1 port 22 rdomain \"\"",
	"Connection closed by authenticating user a 1.2.3.4 port 22 [preauth]",
	"Disconnected from user a 1.2.3.4 port 22",
	"pam_unix(sshd:session): session opened for user a(uid=1000) by (uid=0)",
	"Received disconnect from 1.2.3.4 port 22:11: disconnected by user",
	"error: maximum authentication attempts exceeded for a from 1.2.3.4 port 22 ssh2 [preauth]",
}

var (
	wordRE  = regexp.MustCompile(`[A-Za-z0-9_./+=-]+|[^A-Za-z0-9_./+=-]`)
	wordRE1 = regexp.MustCompile(`^[A-Za-z0-9_./+=-]+$`)
)
