package psshd

import "github.com/metal-toolbox/audito-maldito/ingesters/namedpipe"

func namedpipeZero() namedpipe.NamedPipeIngester { return namedpipe.NamedPipeIngester{} }
