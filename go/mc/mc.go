// Package mc holds what every check shares: tier/seed handling, the
// VIOLATION / KNOWN-FINDING protocol, replay files and the evidence writer.
package mc

import (
	"bufio"
	"crypto/sha256"
	"encoding/hex"
	"encoding/json"
	"fmt"
	"io"
	"os"
	"path/filepath"
	"sort"
	"strconv"
	"strings"
	"sync"
	"time"

	"go.uber.org/zap"
	"go.uber.org/zap/zapcore"
)

// Run is one invocation of one property's check.
type Run struct {
	Prop     string
	Tier     string
	Seed     int64
	Dir      string // /verif
	Replay   string // path given with --replay ("" = explore)
	start    time.Time
	mu       sync.Mutex
	known    map[string]string // key -> description
	hitKnown map[string]int
	viol     map[string]string // key -> replay path
	nviol    int
	Deadline time.Time
	notes    []string
}

func env(k, d string) string {
	if v := os.Getenv(k); v != "" {
		return v
	}
	return d
}

// Start reads VERIF_TIER, VERIF_SEED, VERIF_DIR, VERIF_REPLAY, VERIF_DEADLINE_S.
func Start(prop string) *Run {
	r := &Run{Prop: prop, Tier: env("VERIF_TIER", "quick"), Dir: env("VERIF_DIR", "/verif"),
		Replay: os.Getenv("VERIF_REPLAY"), start: time.Now(),
		known: map[string]string{}, hitKnown: map[string]int{}, viol: map[string]string{}}
	if r.Tier != "thorough" {
		r.Tier = "quick"
	}
	r.Seed, _ = strconv.ParseInt(env("VERIF_SEED", "0"), 10, 64)
	dl, _ := strconv.Atoi(env("VERIF_DEADLINE_S", "0"))
	if dl <= 0 {
		dl = 240
		if r.Tier == "thorough" {
			dl = 3000
		}
	}
	r.Deadline = r.start.Add(time.Duration(dl) * time.Second)
	r.loadKnown()
	return r
}

func (r *Run) Thorough() bool { return r.Tier == "thorough" }

// Expired reports whether the internal deadline has passed.
func (r *Run) Expired() bool { return time.Now().After(r.Deadline) }

// KNOWN_FINDINGS.txt lines:
//
//	known: property=C07 key=<key> <what fails>
//	fixed: property=C07 <commit> <what failed>
func (r *Run) loadKnown() {
	f, err := os.Open(filepath.Join(r.Dir, "KNOWN_FINDINGS.txt"))
	if err != nil {
		return
	}
	defer f.Close()
	sc := bufio.NewScanner(f)
	sc.Buffer(make([]byte, 1<<20), 1<<20)
	for sc.Scan() {
		l := strings.TrimSpace(sc.Text())
		if !strings.HasPrefix(l, "known:") {
			continue
		}
		fs := strings.Fields(l[len("known:"):])
		if len(fs) < 2 || fs[0] != "property="+r.Prop || !strings.HasPrefix(fs[1], "key=") {
			continue
		}
		r.known[strings.TrimPrefix(fs[1], "key=")] = strings.Join(fs[2:], " ")
	}
}

// Note adds a free-text remark to the evidence.
func (r *Run) Note(format string, a ...any) {
	r.mu.Lock()
	defer r.mu.Unlock()
	r.notes = append(r.notes, fmt.Sprintf(format, a...))
}

// Violation records a property violation. key identifies the specific failing
// input / call site / history class (stable across runs, no blanks); replay is
// the data needed to re-execute it; msg says what the oracle saw.
// A key listed in KNOWN_FINDINGS.txt prints KNOWN-FINDING instead.
func (r *Run) Violation(key string, replay any, msg string) {
	key = strings.Join(strings.Fields(key), "_")
	if len(key) > 160 { // keys name a class of violation; a runaway token (a 2 kB field value) is cut, with a digest
		d := sha256.Sum256([]byte(key))
		key = key[:140] + "~" + hex.EncodeToString(d[:4])
	}
	r.mu.Lock()
	defer r.mu.Unlock()
	if desc, ok := r.known[key]; ok {
		r.hitKnown[key]++
		if r.hitKnown[key] == 1 {
			fmt.Printf("KNOWN-FINDING: property=%s key=%s %s\n", r.Prop, key, desc)
		}
		return
	}
	r.nviol++
	if _, ok := r.viol[key]; ok {
		return
	}
	if len(r.viol) >= 25 {
		return
	}
	h := sha256.Sum256([]byte(key))
	dir := filepath.Join(r.Dir, "replays", r.Prop)
	if d := os.Getenv("VERIF_REPLAYS_DIR"); d != "" {
		dir = filepath.Join(d, r.Prop) // mutation runs keep their replays out of /verif/replays
	}
	_ = os.MkdirAll(dir, 0o755)
	path := filepath.Join(dir, hex.EncodeToString(h[:6])+".json")
	b, _ := json.MarshalIndent(map[string]any{"property": r.Prop, "part": os.Getenv("VERIF_PKG"), "key": key, "message": msg, "replay": replay}, "", " ")
	_ = os.WriteFile(path, b, 0o644)
	r.viol[key] = path
	fmt.Printf("VIOLATION property=%s replay=%s\n", r.Prop, path)
	fmt.Printf("  key=%s\n  %s\n", key, strings.ReplaceAll(msg, "\n", "\n  "))
}

// Violations returns the number of (unlisted) violations so far.
func (r *Run) Violations() int {
	r.mu.Lock()
	defer r.mu.Unlock()
	return r.nviol
}

// Coverage is the evidence payload; Extra keys are merged in.
type Coverage struct {
	Level       string // model_checking | exploration | fault_enumeration
	States      int
	Transitions int
	Traces      int // executions run on the implementation
	Evaluations int
	Distinct    int
	Rule        string
	Samples     []any
	Exhaustive  bool
	Extra       map[string]any
	Assumptions []string
}

// Finish writes evidence/<prop>.json and returns the exit code.
func (r *Run) Finish(c Coverage) int {
	cov := map[string]any{
		"evaluations":         c.Evaluations,
		"distinct_nontrivial": c.Distinct,
		"rule":                c.Rule,
		"samples":             c.Samples,
		"exhaustive":          c.Exhaustive,
	}
	if c.Level == "model_checking" {
		cov["states"] = c.States
		cov["transitions"] = c.Transitions
		cov["traces_validated_against_impl"] = c.Traces
	}
	for k, v := range c.Extra {
		cov[k] = v
	}
	if len(r.notes) > 0 {
		cov["notes"] = r.notes
	}
	kf := []string{}
	for k := range r.hitKnown {
		kf = append(kf, k)
	}
	sort.Strings(kf)
	cov["known_findings_hit"] = kf
	if len(c.Samples) == 0 {
		cov["samples"] = []any{"(none)"}
	}
	ev := map[string]any{
		"property_id": r.Prop,
		"tier":        r.Tier,
		"seed":        r.Seed,
		"level":       c.Level,
		"coverage":    cov,
		"assumptions": c.Assumptions,
		"wall_s":      time.Since(r.start).Seconds(),
		"violations":  r.nviol,
	}
	if c.Assumptions == nil {
		ev["assumptions"] = []string{}
	}
	b, _ := json.MarshalIndent(ev, "", " ")
	_ = os.MkdirAll(filepath.Join(r.Dir, "evidence"), 0o755)
	if os.Getenv("VERIF_NO_EVIDENCE") == "" {
		out := filepath.Join(r.Dir, "evidence", r.Prop+".json")
		if part := os.Getenv("VERIF_PART"); part != "" {
			// one of several harness binaries for this property: bin/check merges the parts
			out = filepath.Join(os.Getenv("VERIF_BUILD"), "part."+part+".json")
		}
		_ = os.WriteFile(out, append(b, '\n'), 0o644)
	}
	fmt.Printf("%s %s: level=%s states=%d transitions=%d evaluations=%d distinct=%d exhaustive=%v violations=%d known_hit=%d wall=%.1fs\n",
		r.Prop, r.Tier, c.Level, c.States, c.Transitions, c.Evaluations, c.Distinct, c.Exhaustive, r.nviol, len(kf), time.Since(r.start).Seconds())
	if r.nviol > 0 {
		return 1
	}
	return 0
}

// LoadReplay reads the "replay" member of a replay file into v.
func LoadReplay(path string, v any) (key string, err error) {
	b, err := os.ReadFile(path)
	if err != nil {
		return "", err
	}
	var w struct {
		Key    string          `json:"key"`
		Replay json.RawMessage `json:"replay"`
	}
	if err := json.Unmarshal(b, &w); err != nil {
		return "", err
	}
	return w.Key, json.Unmarshal(w.Replay, v)
}

// DebugLogger returns a logger at debug level whose output is discarded after it has been fully encoded: the
// code under test then runs every logging statement it has (field evaluation included), as it does with
// --log-level debug. Harnesses use it instead of a nil or no-op logger.
func DebugLogger() *zap.SugaredLogger {
	enc := zapcore.NewJSONEncoder(zap.NewProductionEncoderConfig())
	core := zapcore.NewCore(enc, zapcore.AddSync(io.Discard), zapcore.DebugLevel)
	return zap.New(core).Sugar()
}
