package pingest

import (
	"context"
	"fmt"
	"os"
	"path/filepath"
	"strings"
	"sync"
	"sync/atomic"
	"syscall"
	"time"

	"github.com/metal-toolbox/auditevent"
	"github.com/prometheus/client_golang/prometheus"

	"github.com/metal-toolbox/audito-maldito/ingesters/auditlog"
	"github.com/metal-toolbox/audito-maldito/ingesters/namedpipe"
	"github.com/metal-toolbox/audito-maldito/ingesters/syslog"
	"github.com/metal-toolbox/audito-maldito/internal/common"
	"github.com/metal-toolbox/audito-maldito/internal/health"
	"github.com/metal-toolbox/audito-maldito/internal/metrics"
	"github.com/metal-toolbox/audito-maldito/internal/verif/mc"
	"github.com/metal-toolbox/audito-maldito/processors/sshd"
)

// bound is the property's "bounded time"; observed latencies are milliseconds.
const bound = 5 * time.Second

type sink struct {
	mu sync.Mutex
	n  int
	// slow > 0: every write takes that long (a sluggish events output); entered is signalled when one begins
	slow    time.Duration
	entered chan struct{}
}

func (s *sink) Write(p []byte) (int, error) {
	if s.slow > 0 {
		select {
		case s.entered <- struct{}{}:
		default:
		}
		time.Sleep(s.slow)
	}
	s.mu.Lock()
	s.n++
	s.mu.Unlock()
	return len(p), nil
}

func (s *sink) count() int {
	s.mu.Lock()
	defer s.mu.Unlock()
	return s.n
}

// C13, real-FIFO half: both concrete pipe ingesters, cancellation while
// (1) waiting for a writer to open the pipe (also after the pipe's path was removed or re-created meanwhile), (2) blocked reading an idle open
// pipe, (3) holding a partial record.
func runC13fifo(run *mc.Run) int {
	sshd.SetLogger(mc.DebugLogger())
	stall := 1500 * time.Millisecond // how long downstream accepts nothing in the slow-hand-off cell
	if run.Thorough() {
		stall = 6 * time.Second
	}
	dir := scratchDir()
	n := 0
	var samples []any
	lat := map[string]float64{}
	type cellOut struct {
		name, msg string
		lat       float64
	}
	var fifoSeq int64
	runCell := func(which, state string) (res cellOut, skipped bool) {
		{
			name := which + "/" + state
			res.name = name
			path := filepath.Join(dir, fmt.Sprintf("c13-%d", atomic.AddInt64(&fifoSeq, 1)))
			_ = os.Remove(path)
			if err := syscall.Mkfifo(path, 0o600); err != nil {
				panic(err)
			}
			npi := namedpipe.NewNamedPipeIngester(mc.DebugLogger(), health.NewHealth())
			ctx, cancel := context.WithCancel(context.Background())
			out := &sink{}
			if state == "event-write-in-progress" {
				if which != "syslog-ingester" {
					return res, true // only the sshd side writes events itself
				}
				out.slow, out.entered = 400*time.Millisecond, make(chan struct{}, 1)
			}
			auditCh := make(chan string, 100)
			logins := make(chan common.RemoteUserLogin, 100)
			if state == "idle-after-slow-handoff" || state == "blocked-handing-over-downstream" || state == "blocked-again-after-a-long-stall" {
				// downstream accepts nothing for a while (back-pressure), then drains: afterwards the worker is
				// idle on an open pipe again and must still stop on cancellation
				auditCh = make(chan string)
				logins = make(chan common.RemoteUserLogin)
			}
			var ingest func(context.Context) error
			delivered := func() int { return out.count() + len(auditCh) }
			if which == "syslog-ingester" {
				mp := metrics.NewPrometheusMetricsProviderForRegisterer(prometheus.NewRegistry())
				proc := sshd.NewSshdProcessor(ctx, logins, "n", "m", auditevent.NewDefaultAuditEventWriter(out), mp)
				ing := syslog.NewSyslogIngester(path, proc, npi)
				ingest = ing.Ingest
			} else {
				ing := auditlog.NewAuditLogIngester(path, auditCh, npi)
				ingest = ing.Ingest
			}
			done := make(chan error, 1)
			go func() { done <- ingest(ctx) }()
			var w *os.File
			msg := ""
			if strings.HasPrefix(state, "waiting-for-writer-path-") {
				// the worker waits for its first writer; meanwhile the pipe's path is removed (or removed and made
				// anew) by whoever manages it: the name no longer leads to what the worker is waiting on
				time.Sleep(20 * time.Millisecond)
				_ = os.Remove(path)
				if state == "waiting-for-writer-path-recreated" {
					_ = syscall.Mkfifo(path, 0o600)
				}
				time.Sleep(10 * time.Millisecond)
			} else if state != "waiting-for-writer" {
				var err error
				w, err = os.OpenFile(path, os.O_WRONLY, 0)
				if err != nil {
					panic(err)
				}
				switch state {
				case "partial-record-buffered":
					_, _ = w.WriteString("77 Failed password for a from 1.2.3.4 port")
					for fionread(w) > 0 {
						time.Sleep(time.Millisecond)
					}
				case "writer-stays-busy":
					// the writer produces a record every 5 ms and goes on doing so after the cancellation (an ssh
					// scan in progress): the worker stops all the same
					busyStop := make(chan struct{})
					defer close(busyStop)
					go func(w *os.File) {
						for i := 0; ; i++ {
							select {
							case <-busyStop:
								return
							default:
							}
							if _, err := fmt.Fprintf(w, "77 Invalid user scan%d from 1.2.3.4 port 22\n", i); err != nil {
								return
							}
							time.Sleep(5 * time.Millisecond)
						}
					}(w)
					time.Sleep(100 * time.Millisecond)
				case "huge-partial-record-buffered":
					// 1.25 MiB without a terminator so far (more than any cap one would put on a record), writer
					// still connected
					_, _ = w.WriteString("77 Failed password for " + strings.Repeat("x", 1310720))
					for until := time.Now().Add(3 * time.Second); fionread(w) > 0 && time.Now().Before(until); {
						time.Sleep(time.Millisecond)
					}
				case "idle-after-slow-handoff":
					_, _ = w.WriteString("77 Accepted password for a from 1.2.3.4 port 22 ssh2\n78 Accepted password for b from 1.2.3.4 port 22 ssh2\n")
					time.Sleep(stall)
					for i := 0; i < 2; i++ { // now drain what was held up
						select {
						case <-auditCh:
						case <-logins:
						case <-time.After(5 * time.Second):
						}
					}
					for fionread(w) > 0 {
						time.Sleep(time.Millisecond)
					}
				case "idle-after-the-writer-was-replaced":
					// the log writer goes away after a record (end of stream) and another one connects: either the
					// worker has ended at the end of the stream, or it serves the new writer - and then it is idle
					// on THAT pipe handle when the cancellation comes
					_, _ = w.WriteString("77 Failed password for a from 1.2.3.4 port 22 ssh2\n")
					w.Close()
					w = nil
					time.Sleep(50 * time.Millisecond)
					if fd, err := syscall.Open(path, syscall.O_WRONLY|syscall.O_NONBLOCK, 0); err == nil {
						_ = syscall.SetNonblock(fd, false)
						w = os.NewFile(uintptr(fd), path)
						_, _ = w.WriteString("78 Failed password for b from 1.2.3.4 port 22 ssh2\n")
						for until := time.Now().Add(2 * time.Second); fionread(w) > 0 && time.Now().Before(until); {
							time.Sleep(time.Millisecond)
						}
					}
				case "blocked-again-after-a-long-stall":
					// downstream takes nothing for 5.5 s (longer than any "this is taking long" threshold a worker
					// might have), then takes one hand-off, then nothing again: the worker is parked inside its
					// callback for the second time when the cancellation comes
					_, _ = w.WriteString("77 Accepted password for a from 1.2.3.4 port 22 ssh2\n78 Accepted password for b from 1.2.3.4 port 22 ssh2\n79 Accepted password for c from 1.2.3.4 port 22 ssh2\n")
					time.Sleep(5500 * time.Millisecond)
					select {
					case <-auditCh:
					case <-logins:
					case <-time.After(5 * time.Second):
					}
					time.Sleep(100 * time.Millisecond)
				case "blocked-handing-over-downstream":
					// downstream never takes anything: the worker is parked inside its callback (login hand-off to an
					// unready correlator / record hand-off into a full channel) when the cancellation comes, and the
					// writer stays connected and silent afterwards
					_, _ = w.WriteString("77 Accepted password for a from 1.2.3.4 port 22 ssh2\n")
					for until := time.Now().Add(2 * time.Second); time.Now().Before(until) && (fionread(w) > 0 || (which == "syslog-ingester" && out.count() < 1)); {
						time.Sleep(time.Millisecond)
					}
					time.Sleep(20 * time.Millisecond)
				case "event-write-in-progress":
					// the cancellation comes while the worker is in the middle of writing an event to a sluggish
					// output: whatever it still delivers, it delivers before it returns
					_, _ = w.WriteString("77 Failed password for a from 1.2.3.4 port 22 ssh2\n")
					select {
					case <-out.entered:
					case <-time.After(2 * time.Second):
					}
				case "after-some-records":
					_, _ = w.WriteString("77 Failed password for a from 1.2.3.4 port 22 ssh2\n77 Failed password for b from 1.2.3.4 port 22 ssh2\n")
					for fionread(w) > 0 || delivered() < 2 {
						time.Sleep(time.Millisecond)
					}
				}
			} else {
				time.Sleep(20 * time.Millisecond) // let it reach the open(2)
			}
			time.Sleep(10 * time.Millisecond)
			before := delivered()
			t0 := time.Now()
			cancel()
			select {
			case <-done:
				res.lat = time.Since(t0).Seconds()
			case <-time.After(bound):
				msg = fmt.Sprintf("did not return within %v after its context was cancelled", bound)
			}
			// nothing may be delivered after it returned (what it had in hand it delivers before returning)
			atReturn := delivered()
			_ = before
			if msg == "" && w != nil {
				_, _ = w.WriteString("77 Failed password for late from 1.2.3.4 port 22 ssh2\n")
				time.Sleep(50*time.Millisecond + 2*out.slow)
				if d := delivered(); d != atReturn {
					msg = fmt.Sprintf("%d records were delivered after the worker had returned", d-atReturn)
				}
			}
			if w != nil {
				w.Close()
			} else {
				// release the goroutine that is still blocked in open(2)
				if f, err := os.OpenFile(path, os.O_WRONLY|syscall.O_NONBLOCK, 0); err == nil {
					f.Close()
				}
			}
			os.Remove(path)
			res.msg = msg
			return res, false
		}
	}
	record := func(res cellOut) {
		n++
		lat[res.name] = res.lat
		samples = append(samples, fmt.Sprintf("%s: returned after %.4fs", res.name, res.lat))
		if res.msg != "" {
			run.Violation("C13:fifo:"+res.name, map[string]any{"cell": res.name}, res.name+": "+res.msg)
		}
	}
	// the two cells that need 5.5 s of real time run next to the others
	long := make(chan cellOut, 2)
	for _, which := range []string{"syslog-ingester", "auditlog-ingester"} {
		go func(which string) {
			res, _ := runCell(which, "blocked-again-after-a-long-stall")
			long <- res
		}(which)
	}
	for _, which := range []string{"syslog-ingester", "auditlog-ingester"} {
		for _, state := range []string{"waiting-for-writer", "idle-open-pipe", "partial-record-buffered", "after-some-records", "idle-after-slow-handoff", "idle-after-the-writer-was-replaced", "blocked-handing-over-downstream", "waiting-for-writer-path-removed", "waiting-for-writer-path-recreated", "event-write-in-progress", "huge-partial-record-buffered", "writer-stays-busy"} {
			if res, skipped := runCell(which, state); !skipped {
				record(res)
			}
		}
	}
	record(<-long)
	record(<-long)
	cov := mc.Coverage{Level: "fault_enumeration", Evaluations: n, Distinct: n, Exhaustive: true, Samples: samples,
		Rule:  "cancellation injected into SyslogIngester.Ingest and AuditLogIngester.Ingest on real FIFOs in each blocking state: waiting for a writer to open the pipe, blocked reading an idle open pipe, holding a partial record (a short one; 1.25 MiB), idle after some records, idle after a back-pressure episode in which downstream accepted nothing for 1.5 s (thorough 6 s), idle after the first writer left and a second one connected (if the worker serves it), parked inside the callback because downstream (correlator / record channel) never takes the hand-off, parked there for the second time after a first stall of 5.5 s had ended, in the middle of a 400 ms event write, while the writer keeps producing a record every 5 ms; the worker must return within the bound and deliver nothing afterwards. distinct_nontrivial = cells (all are blocking states)",
		Extra: map[string]any{"bound_s": bound.Seconds(), "latency_s": lat}}
	cov.Assumptions = []string{"real time: the bound (5 s) is three orders of magnitude above observed latencies; the OS scheduler is not controlled"}
	return run.Finish(cov)
}
