package pingest
