// Package pingest drives the real NamedPipeIngester over real FIFOs: the
// harness owns the writer side and decides how the byte stream is split into
// write(2) calls; after every chunk it polls FIONREAD on the write end until
// the reader has taken the bytes, so every chunk is a separate read(2).
// Checks: C12 (framing) and the FIFO states of C13 (cancellation).
package pingest

import (
	"context"
	"errors"
	"fmt"
	"io"
	"os"
	"path/filepath"
	"runtime"
	"strings"
	"sync"
	"sync/atomic"
	"syscall"
	"time"
	"unsafe"

	"github.com/metal-toolbox/audito-maldito/ingesters/namedpipe"
	"github.com/metal-toolbox/audito-maldito/internal/health"
	"github.com/metal-toolbox/audito-maldito/internal/verif/mc"
)

var errInjected = errors.New("injected callback failure")

// cbErrs: the error a failing callback returns - its own, or one of the sentinels the ingester itself deals with
// (end of file, a cancelled context, a closed file). Whatever it is, it comes back unchanged.
var cbErrs = []error{errInjected, io.EOF, context.Canceled, os.ErrClosed, io.ErrUnexpectedEOF, syscall.EINTR, syscall.EAGAIN}

func scratchDir() string {
	d := os.Getenv("VERIF_BUILD")
	if d == "" {
		d = os.TempDir()
	}
	d = filepath.Join(d, "fifos")
	_ = os.MkdirAll(d, 0o755)
	return d
}

func fionread(f *os.File) int {
	var n int32
	_, _, e := syscall.Syscall(syscall.SYS_IOCTL, f.Fd(), 0x541B, uintptr(unsafe.Pointer(&n)))
	if e != 0 {
		return 0
	}
	return int(n)
}

type result struct {
	calls   []string
	ret     error
	hung    bool
	latency time.Duration
	want    error // the error the failing callback returned (nil: errInjected)
}

// feed runs the real ingester on a fresh FIFO, writes chunks (each a separate
// write, waiting until the reader drained the pipe), closes the writer and
// waits for Ingest to return. failAt: the k-th callback (1-based) fails.
func feed(path string, delim byte, chunks []string, failAt int) result {
	return feedPaused(path, delim, chunks, failAt, 0)
}

func feedPaused(path string, delim byte, chunks []string, failAt int, pause time.Duration) result {
	return feedOpt(path, delim, chunks, failAt, pause, false)
}

// feedOpt: with cancelOnFail the failing callback also finds (makes) the ingester's context cancelled before it
// returns its error - the situation of a worker whose sibling failed at the same moment.
func feedOpt(path string, delim byte, chunks []string, failAt int, pause time.Duration, cancelOnFail bool) result {
	return feedOn(nil, path, delim, chunks, failAt, pause, cancelOnFail)
}

// feedOn: with a non-nil ingester the stream is served by that (already used) ingester value.
func feedOn(reuse *namedpipe.NamedPipeIngester, path string, delim byte, chunks []string, failAt int, pause time.Duration, cancelOnFail bool, errK ...int) result {
	cbErr := errInjected
	if len(errK) > 0 {
		cbErr = cbErrs[errK[0]]
	}
	stall := time.Duration(0) // errK[1]: milliseconds the FIRST callback takes (a consumer that falls behind)
	if len(errK) > 1 {
		stall = time.Duration(errK[1]) * time.Millisecond
	}
	_ = os.Remove(path)
	if err := syscall.Mkfifo(path, 0o600); err != nil {
		panic(err)
	}
	defer os.Remove(path)
	fresh := namedpipe.NewNamedPipeIngester(mc.DebugLogger(), health.NewHealth())
	npi := &fresh
	if reuse != nil {
		npi = reuse
	}
	var res result
	done := make(chan struct{})
	ctx, cancel := context.WithCancel(context.Background())
	defer cancel()
	go func() {
		res.ret = npi.Ingest(ctx, path, delim, func(_ context.Context, s string) error {
			res.calls = append(res.calls, s)
			if stall > 0 && len(res.calls) == 1 {
				time.Sleep(stall)
			}
			if failAt > 0 && len(res.calls) == failAt {
				if cancelOnFail {
					cancel()
					runtime.Gosched() // let whatever reacts to the cancellation (closing the pipe) run first
					time.Sleep(time.Millisecond)
				}
				return cbErr
			}
			return nil
		})
		close(done)
	}()
	w, err := os.OpenFile(path, os.O_WRONLY, 0)
	if err != nil {
		panic(err)
	}
	fd := w
	stopped := false
	for ci, c := range chunks {
		if stopped {
			break
		}
		if pause > 0 && ci > 0 {
			time.Sleep(pause)
		}
		if _, err := fd.Write([]byte(c)); err != nil {
			break // reader went away (injected failure)
		}
		// wait until the reader has taken this chunk, or has returned
		for fionread(fd) > 0 {
			select {
			case <-done:
				stopped = true
			default:
				runtime.Gosched()
			}
			if stopped {
				break
			}
		}
	}
	fd.Close()
	select {
	case <-done:
	case <-time.After(8 * time.Second):
		res.hung = true
		cancel()
		<-done
	}
	return res
}

// reference: the delimiter-terminated records of the stream.
func reference(stream string, delim byte) []string {
	var out []string
	for {
		i := strings.IndexByte(stream, delim)
		if i < 0 {
			return out
		}
		out = append(out, stream[:i])
		stream = stream[i+1:]
	}
}

func judge(stream string, delim byte, failAt int, r result) string {
	ref := reference(stream, delim)
	if r.hung {
		return "Ingest did not return after the writer closed the pipe"
	}
	want := ref
	if failAt > 0 && failAt <= len(ref) {
		want = ref[:failAt]
	}
	if len(r.calls) != len(want) {
		return fmt.Sprintf("%d callbacks, want %d (records %q, got %q)", len(r.calls), len(want), short(want), short(r.calls))
	}
	for i := range want {
		got := r.calls[i]
		if strings.HasSuffix(got, string([]byte{delim})) {
			got = got[:len(got)-1]
		}
		if got != want[i] {
			return fmt.Sprintf("callback %d got %q, record is %q", i, shortS(r.calls[i]), shortS(want[i]))
		}
	}
	if failAt > 0 && failAt <= len(ref) {
		want := r.want
		if want == nil {
			want = errInjected
		}
		if r.ret != want {
			return fmt.Sprintf("the callback's error %q was returned as %v, want it unchanged", want, r.ret)
		}
		return ""
	}
	if r.ret == nil {
		return "end-of-stream was reported as nil (ignored)"
	}
	return ""
}

func shortS(s string) string {
	if len(s) > 40 {
		return fmt.Sprintf("%s...(%d bytes)", s[:40], len(s))
	}
	return s
}

func short(ss []string) []string {
	var out []string
	for _, s := range ss {
		out = append(out, shortS(s))
	}
	return out
}

type job struct {
	stream string
	cuts   uint32 // bit i set = a write boundary after byte i
	chunks []string
	delim  byte
	failAt int
	class  string
	pause  time.Duration // sleep between the writes (a writer that stalls mid-record)
	cancel bool          // the failing callback finds the context cancelled when it returns its error
	first  string        // if set: this stream was served first, to its end, by the same ingester value
	errK   int           // index into cbErrs of the error the failing callback returns
	stall  int           // milliseconds the first callback takes
}

func (j job) parts() []string {
	if j.chunks != nil {
		return j.chunks
	}
	var out []string
	start := 0
	for i := 0; i < len(j.stream); i++ {
		if i == len(j.stream)-1 || j.cuts&(1<<uint(i)) != 0 {
			out = append(out, j.stream[start:i+1])
			start = i + 1
		}
	}
	return out
}

func chunkBy(s string, n int) []string {
	var out []string
	for len(s) > n {
		out = append(out, s[:n])
		s = s[n:]
	}
	if len(s) > 0 {
		out = append(out, s)
	}
	return out
}

func runC12(run *mc.Run) int {
	n := 5
	if run.Thorough() {
		n = 8
	}
	dir := scratchDir()
	if run.Replay != "" {
		var rp struct {
			Writes []string `json:"writes"`
			Delim  int      `json:"delim"`
			FailAt int      `json:"fail_at"`
			Cancel bool     `json:"cancel_on_fail"`
			First  string   `json:"first_stream"`
			ErrK   int      `json:"err_kind"`
			Stall  int      `json:"stall_ms"`
		}
		if _, err := mc.LoadReplay(run.Replay, &rp); err != nil || rp.Delim == 0 {
			fmt.Println("cannot load replay:", err)
			return 2
		}
		var npi *namedpipe.NamedPipeIngester
		if rp.First != "" {
			x := namedpipe.NewNamedPipeIngester(mc.DebugLogger(), health.NewHealth())
			npi = &x
			_ = feedOn(npi, filepath.Join(dir, "replay"), byte(rp.Delim), chunkBy(rp.First, 4096), 0, 0, false)
		}
		r := feedOn(npi, filepath.Join(dir, "replay"), byte(rp.Delim), rp.Writes, rp.FailAt, 0, rp.Cancel, rp.ErrK, rp.Stall)
		r.want = cbErrs[rp.ErrK]
		m := judge(strings.Join(rp.Writes, ""), byte(rp.Delim), rp.FailAt, r)
		fmt.Printf("writes %q fail_at=%d cancel_on_fail=%v: callbacks %q returned %v: %s\n", short(rp.Writes), rp.FailAt, rp.Cancel, short(r.calls), r.ret, m)
		if m != "" {
			fmt.Printf("VIOLATION property=C12 replay=%s\n", run.Replay)
			return 1
		}
		return 0
	}
	jobs := make(chan job, 256)
	var evals, multi, hangs, skipped int64
	var wg sync.WaitGroup
	var smu sync.Mutex
	var samples []any
	classes := map[string]int{}
	for wk := 0; wk < runtime.GOMAXPROCS(0); wk++ {
		wg.Add(1)
		go func(wk int) {
			defer wg.Done()
			path := filepath.Join(dir, fmt.Sprintf("p%d", wk))
			for j := range jobs {
				if atomic.LoadInt64(&hangs) >= 3 {
					atomic.AddInt64(&skipped, 1)
					continue // the ingester no longer returns at end-of-stream: already reported
				}
				parts := j.parts()
				var r result
				if j.first != "" {
					// the ingester value is used again after a stream that ended in the middle of a record: nothing
					// of the earlier stream may show up in the records of this one
					npi := namedpipe.NewNamedPipeIngester(mc.DebugLogger(), health.NewHealth())
					_ = feedOn(&npi, path, j.delim, chunkBy(j.first, 4096), 0, 0, false)
					r = feedOn(&npi, path, j.delim, parts, j.failAt, j.pause, j.cancel, j.errK)
				} else {
					r = feedOn(nil, path, j.delim, parts, j.failAt, j.pause, j.cancel, j.errK, j.stall)
				}
				r.want = cbErrs[j.errK]
				if r.hung {
					atomic.AddInt64(&hangs, 1)
				}
				atomic.AddInt64(&evals, 1)
				if len(parts) > 1 {
					atomic.AddInt64(&multi, 1)
				}
				smu.Lock()
				classes[j.class]++
				if classes[j.class] == 20 && len(samples) < 8 {
					samples = append(samples, map[string]any{"class": j.class, "writes": short(parts), "fail_at": j.failAt})
				}
				smu.Unlock()
				if m := judge(j.stream, j.delim, j.failAt, r); m != "" {
					run.Violation("C12:"+j.class+":"+strings.Join(strings.Fields(m)[:2], "_"),
						map[string]any{"writes": parts, "delim": int(j.delim), "fail_at": j.failAt, "cancel_on_fail": j.cancel, "first_stream": j.first, "err_kind": j.errK, "stall_ms": j.stall},
						fmt.Sprintf("stream written as %d writes %q (delimiter %q, callback failing at %d): %s", len(parts), short(parts), j.delim, j.failAt, m))
				}
			}
		}(wk)
	}
	complete := true
	emit := func(j job) {
		if !complete {
			return
		}
		if run.Expired() {
			complete = false
			return
		}
		jobs <- j
	}
	// (1) every stream over {a,b,delim} up to length n x every partition into writes
	for _, delim := range []byte{'\n', 0} {
		alpha := []byte{'a', 'b', delim}
		var gen func(prefix []byte)
		gen = func(prefix []byte) {
			if len(prefix) > 0 {
				s := string(prefix)
				for cuts := uint32(0); cuts < 1<<uint(len(s)-1); cuts++ {
					emit(job{stream: s, cuts: cuts, delim: delim, class: "small-alphabet"})
				}
			}
			if len(prefix) == n || (delim == 0 && len(prefix) == n-2) {
				return
			}
			for _, c := range alpha {
				gen(append(append([]byte{}, prefix...), c))
			}
		}
		gen(nil)
	}
	// (2) records around and beyond the 4096-byte internal buffer x chunk sizes
	lens := []int{4095, 4096, 4097, 8191, 8192, 8193, 12289, 70000}
	for _, l := range lens {
		rec := strings.Repeat("x", l-1) + "y"
		stream := "head\n" + rec + "\n" + "tail\n" + "unterminated"
		for _, cs := range []int{1, 2, 4095, 4096, 4097, len(stream)} {
			if cs <= 2 && (l > 8193 || !run.Thorough() && l != 4096) {
				continue // byte-at-a-time over 70 kB is covered by the 4096-byte case
			}
			emit(job{stream: stream, chunks: chunkBy(stream, cs), delim: '\n', class: "long-record"})
		}
	}
	// (2a) records around and beyond one mebibyte (a cap somebody might put on a record): whole, in order, once
	for _, l := range []int{1<<20 - 1, 1 << 20, 1<<20 + 1, 1310720} {
		rec := strings.Repeat("m", l-1) + "y"
		stream := "head\n" + rec + "\n" + "7 tail after the big one\n" + "unterminated"
		emit(job{stream: stream, chunks: chunkBy(stream, 65536), delim: '\n', class: "mebibyte-record"})
	}
	// (3) callback error injected at each record index, with several partitions
	for _, s := range []string{"a\nb\nc\nd\n", "a\n\n\nb\n", "aa\nbb\ncc"} {
		for k := 1; k <= 5; k++ {
			for _, cs := range []int{1, 2, 3, len(s)} {
				emit(job{stream: s, chunks: chunkBy(s, cs), delim: '\n', failAt: k, class: "callback-error"})
				for ek := 1; ek < len(cbErrs); ek++ {
					emit(job{stream: s, chunks: chunkBy(s, cs), delim: '\n', failAt: k, class: "callback-error-sentinel", errK: ek})
				}
				if cs == 1 || cs == len(s) {
					// ... and the same with the context cancelled by the time the callback returns its error:
					// the error is still the callback's own
					emit(job{stream: s, chunks: chunkBy(s, cs), delim: '\n', failAt: k, class: "callback-error-under-cancelled-context", cancel: true})
				}
			}
		}
	}
	// (3b) a writer that stalls between its writes (longer than any polling / deadline interval one would use)
	pauses := []time.Duration{300 * time.Millisecond}
	if run.Thorough() {
		pauses = append(pauses, 1500*time.Millisecond, 5*time.Second)
	}
	for _, pz := range pauses {
		for _, cs := range [][]string{{"first rec", "ord\nsecond\n"}, {"a\nb", "\n", "c\n"}, {"only-newline-late", "\n"}, {"x\n", "y\n"}} {
			emit(job{stream: strings.Join(cs, ""), chunks: cs, delim: '\n', class: "paused-writer", pause: pz})
		}
	}
	// (2b) arbitrary bytes inside records: NUL, 0xff (invalid UTF-8), CR, blank - every stream of <= 4 symbols over
	// those and the delimiter, every partition
	{
		syms := []byte{0x00, 0xff, '\r', ' ', '\n'}
		var gen func(prefix []byte)
		gen = func(prefix []byte) {
			if len(prefix) > 0 {
				for cuts := uint32(0); cuts < 1<<uint(len(prefix)-1); cuts++ {
					emit(job{stream: string(prefix), cuts: cuts, delim: '\n', class: "arbitrary-bytes"})
				}
			}
			if len(prefix) == 4 {
				return
			}
			for _, c := range syms {
				gen(append(append([]byte{}, prefix...), c))
			}
		}
		gen(nil)
	}
	// (2d) delimiters that are not ASCII: a delimiter is a byte, whatever its value (0x80, 0xc3, 0xff), and records
	// may contain the UTF-8 encoding of the code point with that number (U+0080 = c2 80, U+00FF = c3 bf)
	for _, d := range []byte{0x80, 0xc3, 0xff, 0x7f} {
		ds := string([]byte{d})
		enc := string(rune(d)) // the two-byte UTF-8 form for d >= 0x80
		stream := "a" + ds + "b" + enc + "c" + ds + ds + enc + ds + "tail" + enc
		for _, cs := range []int{1, 2, 3, len(stream)} {
			emit(job{stream: stream, chunks: chunkBy(stream, cs), delim: d, class: "non-ascii-delimiter"})
		}
	}
	// (2c) records that begin with bytes a text layer may think are not content: byte-order marks, ESC, a syslog
	// priority, a gzip header, the CEE cookie, comment and escape characters - alone, doubled, leading and trailing
	for _, m := range []string{"\xef\xbb\xbf", "\xff\xfe", "\xfe\xff", "\x1f\x8b", "\x1b[0m", "<13>", "@cee:", "#", "\\", "\x7f", "\xc2\x85", "\xe2\x80\xa8"} {
		stream := m + "\n" + m + "x\n" + m + m + "y\n" + "a" + m + "\n" + " " + m + "z\n" + m
		for _, cs := range []int{1, 2, len(stream)} {
			emit(job{stream: stream, chunks: chunkBy(stream, cs), delim: '\n', class: "magic-prefix"})
		}
	}
	// (3d) a consumer that falls far behind: 300 / 1 200 / 5 000 short records arrive in one write while the first
	// callback takes 1.5 s (longer than any patience a read-ahead queue might have): every record still arrives
	for _, nrec := range []int{300, 1200, 5000} {
		var b strings.Builder
		for i := 0; i < nrec; i++ {
			fmt.Fprintf(&b, "rec-%05d\n", i)
		}
		emit(job{stream: b.String(), chunks: []string{b.String()}, delim: '\n', class: "callback-falls-behind", stall: 1500})
	}
	// (3c) a second stream served by the same ingester value after one that ended mid-record
	for _, tail := range []int{1, 100, 4095, 4096, 4097, 5000, 12288, 70000} {
		first := "head\n" + strings.Repeat("t", tail)
		for _, s := range []string{"gamma\ndelta\n", "g\n", strings.Repeat("z", 5000) + "\nafter\n"} {
			emit(job{stream: s, chunks: chunkBy(s, 4096), delim: '\n', class: "second-stream-on-a-reused-ingester", first: first})
		}
	}
	// (4) empty stream / only a tail
	emit(job{stream: "", chunks: []string{}, delim: '\n', class: "edge"})
	emit(job{stream: "tail-only", chunks: []string{"tail", "-only"}, delim: '\n', class: "edge"})
	close(jobs)
	wg.Wait()
	cov := mc.Coverage{Level: "exploration", Evaluations: int(evals), Distinct: int(multi), Exhaustive: complete && skipped == 0, Samples: samples,
		Rule:  fmt.Sprintf("the real NamedPipeIngester.Ingest on real FIFOs: every byte stream over {a,b,delimiter} of length <=%d x every one of the 2^(len-1) partitions into write(2) calls (FIONREAD handshake: each write is drained before the next), delimiters \\n and NUL (and, on a fixed stream, 0x7f, 0x80, 0xc3, 0xff); every stream of <=4 symbols over {NUL, 0xff, CR, blank, newline} x every partition; records of 4095..70000 bytes x chunk sizes {1,2,4095,4096,4097,whole}; records of 2^20-1, 2^20, 2^20+1 and 1.25 x 2^20 bytes; a callback error at each record index (the callback's own error, io.EOF, context.Canceled, os.ErrClosed, io.ErrUnexpectedEOF; also with the context cancelled by the time the callback returns); a second stream served by the same ingester value after one that ended with an unterminated tail of 1..70000 bytes; bursts of 300 / 1 200 / 5 000 records while the first callback takes 1.5 s; writers that pause 0.3 s (thorough: 1.5 s, 5 s) between their writes, mid-record; unterminated tails and the empty stream. Oracle (partition-independent): callback arguments = the delimiter-terminated records in order (one trailing delimiter allowed), nothing after the last delimiter, callback error returned unchanged, end-of-stream returned as an error. distinct_nontrivial = runs whose stream was split over >=2 writes", n),
		Extra: map[string]any{"runs_per_class": classes, "max_stream_len": n}}
	cov.Assumptions = []string{"kernel FIFO semantics; a write larger than the pipe buffer may be split by the kernel (affects only which partition was exercised, not the verdict)"}
	return run.Finish(cov)
}
