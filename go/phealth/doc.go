package phealth // needs:race
