// Package phealth checks C18 on the real internal/health package:
// (a) explicit-state search to closure over registrations / ready-marks,
// (b) all lock-granularity interleavings of registrations, ready-marks and
//
//	status requests under the cooperative scheduler,
//
// (c) all event orders of WaitForReady under a virtual clock.
package phealth

import (
	"context"
	"encoding/json"
	"errors"
	"fmt"
	"net/http/httptest"
	"os"
	"os/exec"
	"sort"
	"strings"
	"sync"
	"testing"
	"testing/synctest"
	"time"

	"golang.org/x/sync/errgroup"

	"github.com/metal-toolbox/audito-maldito/internal/common"
	"github.com/metal-toolbox/audito-maldito/internal/health"
	"github.com/metal-toolbox/audito-maldito/internal/verif/mc"
	"github.com/metal-toolbox/audito-maldito/internal/verif/sched"
	"github.com/metal-toolbox/audito-maldito/internal/verif/vsync"
)

var names = []string{"a", "b", "c"}

type hop struct {
	K string `json:"k"` // "add" | "ready"
	X string `json:"x"`
}

func (o hop) String() string { return o.K + "(" + o.X + ")" }

// model: component -> ready since last registration
type model map[string]bool

func (m model) key() string {
	var ks []string
	for k, v := range m {
		ks = append(ks, fmt.Sprintf("%s=%v", k, v))
	}
	sort.Strings(ks)
	return strings.Join(ks, ",")
}

func (m model) apply(o hop) {
	switch o.K {
	case "add":
		m[o.X] = false
	case "ready":
		// marking an unregistered component is outside the statement; the
		// model records it as "marked" so that a later registration resets it.
		m[o.X] = true
	}
}

func (m model) allReady(registered map[string]bool) bool {
	for k := range registered {
		if !m[k] {
			return false
		}
	}
	return true
}

func applyReal(h *health.Health, o hop) {
	switch o.K {
	case "add":
		h.AddReadiness(o.X)
	case "ready":
		h.OnReady(o.X)
	}
}

type response struct {
	Code int
	Body map[string]string
	Raw  string
}

func get(h *health.Health) response {
	rec := httptest.NewRecorder()
	h.ReadyzHandler().ServeHTTP(rec, httptest.NewRequest("GET", "/readyz", nil))
	r := response{Code: rec.Code, Raw: strings.TrimSpace(rec.Body.String())}
	_ = json.Unmarshal(rec.Body.Bytes(), &r.Body)
	return r
}

// getBoth asks twice: an ordinary request, and a request whose context is already done (a prober that hung up, a
// deadline that passed while the handler waited for a lock). The answer describes the components, not the client:
// a differing second answer is returned in place of the first, in a form that can never be consistent.
func getBoth(h *health.Health) response {
	r := get(h)
	for _, mk := range []func() (context.Context, context.CancelFunc){
		func() (context.Context, context.CancelFunc) {
			c, f := context.WithCancel(context.Background())
			f()
			return c, f
		},
		func() (context.Context, context.CancelFunc) {
			return context.WithDeadline(context.Background(), time.Unix(0, 0))
		},
	} {
		ctx, cancel := mk()
		rec := httptest.NewRecorder()
		h.ReadyzHandler().ServeHTTP(rec, httptest.NewRequest("GET", "/readyz", nil).WithContext(ctx))
		cancel()
		if rec.Code != r.Code || strings.TrimSpace(rec.Body.String()) != r.Raw {
			return response{Code: rec.Code, Raw: fmt.Sprintf("a request whose context is done (%v) was answered %d %q, an ordinary request %d %q", ctx.Err(), rec.Code, strings.TrimSpace(rec.Body.String()), r.Code, r.Raw)}
		}
	}
	return r
}

// consistent checks the response against itself.
func (r response) consistent() string {
	if r.Body == nil {
		return "body is not a JSON object of strings: " + r.Raw
	}
	ov, ok := r.Body[health.OverallReady]
	if !ok {
		return "body has no overall status"
	}
	all := true
	for k, v := range r.Body {
		if k == health.OverallReady {
			continue
		}
		if v != health.ComponentReady && v != health.ComponentNotReady {
			return "unknown component status " + v
		}
		if v != health.ComponentReady {
			all = false
		}
	}
	if (ov == health.ComponentReady) != all {
		return fmt.Sprintf("overall=%q but components say all-ready=%v", ov, all)
	}
	if (r.Code == 200) != (ov == health.ComponentReady) || (r.Code != 200 && r.Code != 503) {
		return fmt.Sprintf("status code %d with overall=%q", r.Code, ov)
	}
	return ""
}

func perm3(k int) []int {
	ps := [][]int{{0, 1, 2}, {0, 2, 1}, {1, 0, 2}, {1, 2, 0}, {2, 0, 1}, {2, 1, 0}}
	return ps[k%6]
}

func nthPerm(n, k int) []int {
	items := make([]int, n)
	for i := range items {
		items[i] = i
	}
	if k == 0 || n > 12 {
		return items
	}
	out := make([]int, 0, n)
	f := 1
	for i := 2; i < n; i++ {
		f *= i
	}
	for i := n; i >= 1; i-- {
		j := k / f
		k %= f
		out = append(out, items[j])
		items = append(items[:j], items[j+1:]...)
		if i > 1 {
			f /= (i - 1)
		}
	}
	return out
}

func fact(n int) int {
	f := 1
	for i := 2; i <= n; i++ {
		f *= i
	}
	return f
}

// iteration-order choice: sequential mode enumerates permutations itself.
var iterChoice func(n int) int

func init() {
	common.VerifIterOrder = func(_ any, n int) []int {
		k := 0
		if iterChoice != nil && n > 1 && n <= 4 {
			k = iterChoice(fact(n))
		}
		return nthPerm(n, k)
	}
}

// ---------- (a) explicit-state search over registrations and ready-marks

func searchSequential(run *mc.Run, cov *mc.Coverage) {
	searchSequentialOver(run, cov, names, false)
	// once more with a component that carries the reserved name of the summary entry: its own line of the body
	// cannot be told from the summary, so only the status code, IsReady and the summary are judged
	searchSequentialOver(run, cov, []string{"a", health.OverallReady}, true)
	// ... and with names that differ in case only (incl. the long s, which Unicode folds onto s): they are three
	// components, and a mark for one is no mark for another
	searchSequentialOver(run, cov, []string{"sshd", "Sshd", "\u017fshd"}, false)
	// ... and with a component whose name alone makes the response body longer than 4 KiB and 64 KiB (the sizes at
	// which buffered writers start to pass data through): status line and body still belong together
	searchSequentialOver(run, cov, []string{"a", strings.Repeat("n", 5000)}, false)
	searchSequentialOver(run, cov, []string{"a", strings.Repeat("N", 70000)}, false)
}

func searchSequentialOver(run *mc.Run, cov *mc.Coverage, names []string, reserved bool) {
	type node struct {
		h []hop
	}
	build := func(h []hop) (*health.Health, model, map[string]bool) {
		hl := health.NewHealth()
		m := model{}
		reg := map[string]bool{}
		for _, o := range h {
			applyReal(hl, o)
			m.apply(o)
			if o.K == "add" {
				reg[o.X] = true
			}
		}
		return hl, m, reg
	}
	regKey := func(reg map[string]bool) string {
		var ks []string
		for k := range reg {
			ks = append(ks, k)
		}
		sort.Strings(ks)
		return strings.Join(ks, "")
	}
	seen := map[string]bool{"|": true}
	queue := []node{{nil}}
	trans := 0
	for len(queue) > 0 {
		nd := queue[0]
		queue = queue[1:]
		for _, x := range names {
			for _, k := range []string{"add", "ready"} {
				o := hop{k, x}
				h2 := append(append([]hop{}, nd.h...), o)
				hl, m, reg := build(h2)
				trans++
				// every iteration order of the status computation
				nperm := fact(len(m))
				if len(m) > 4 {
					nperm = 1
				}
				for p := 0; p < nperm; p++ {
					p := p
					iterChoice = func(n int) int { return p % n }
					r := getBoth(hl)
					isReady := hl.IsReady()
					iterChoice = nil
					want := m.allReady(reg)
					msg := r.consistent()
					if reserved {
						msg = ""
						if r.Body == nil {
							msg = "body is not a JSON object of strings: " + r.Raw
						} else if (r.Body[health.OverallReady] == health.ComponentReady) != want {
							msg = fmt.Sprintf("summary entry %q but every-registered-component-ready=%v", r.Body[health.OverallReady], want)
						}
					}
					if msg == "" && (r.Code == 200) != want {
						msg = fmt.Sprintf("status %d but every-registered-component-ready=%v (model %s)", r.Code, want, m.key())
					}
					if msg == "" {
						for c := range reg {
							if reserved && c == health.OverallReady {
								continue
							}
							wantS := health.ComponentNotReady
							if m[c] {
								wantS = health.ComponentReady
							}
							if r.Body[c] != wantS {
								msg = fmt.Sprintf("component %s reported %q, want %q", c, r.Body[c], wantS)
							}
						}
					}
					if msg == "" && isReady != want {
						msg = fmt.Sprintf("IsReady()=%v but every-registered-component-ready=%v", isReady, want)
					}
					if msg != "" {
						run.Violation("C18:seq:"+strings.Fields(msg)[0], map[string]any{"kind": "seq", "history": h2, "perm": p},
							fmt.Sprintf("history %v, iteration order #%d: %s; response %d %s", h2, p, msg, r.Code, r.Raw))
					}
				}
				key := m.key() + "|" + regKey(reg)
				if !seen[key] {
					seen[key] = true
					queue = append(queue, node{h2})
					if len(cov.Samples) < 2 && len(h2) >= 4 {
						cov.Samples = append(cov.Samples, fmt.Sprintf("seq: %v", h2))
					}
				}
			}
		}
	}
	cov.States += len(seen)
	cov.Transitions += trans
	cov.Traces += trans
	exKey := "sequential"
	if reserved {
		exKey = "sequential_with_a_component_named_overall"
	}
	cov.Extra[exKey] = map[string]any{"states": len(seen), "transitions": trans, "closure_reached": true, "components": names}
	fmt.Printf("C18(a) sequential: states=%d transitions=%d\n", len(seen), trans)
}

// ---------- (b) interleavings under the cooperative scheduler

type hprog struct {
	Name    string
	Prefix  []hop
	Threads [][]hop // a hop with K=="get" is a status request
	// ReleasePoints: lock releases are scheduling points too, so that a handler which publishes something after
	// it has let go of the lock (a cached response, a flag) can be overtaken there by a registration or a
	// ready-mark. Multiplies the schedule space: only the two-thread programs.
	ReleasePoints bool
}

type hinst struct {
	h    *health.Health
	resp [][]response
}

func (p *hprog) setup() *hinst {
	in := &hinst{h: health.NewHealth(), resp: make([][]response, len(p.Threads))}
	for _, o := range p.Prefix {
		applyReal(in.h, o)
	}
	return in
}

func (in *hinst) runThread(t int, ops []hop) {
	for _, o := range ops {
		if o.K == "get" {
			in.resp[t] = append(in.resp[t], get(in.h))
		} else {
			applyReal(in.h, o)
		}
	}
}

func (in *hinst) observe() string {
	var b strings.Builder
	for t, rs := range in.resp {
		for i, r := range rs {
			fmt.Fprintf(&b, "T%d get%d: %d %s\n", t, i, r.Code, r.Raw)
		}
	}
	fin := getBoth(in.h)
	fmt.Fprintf(&b, "final: %d %s\n", fin.Code, fin.Raw)
	return b.String()
}

func (p *hprog) sequential() map[string]bool {
	out := map[string]bool{}
	pos := make([]int, len(p.Threads))
	var order []int
	var rec func()
	rec = func() {
		done := true
		for t := range p.Threads {
			if pos[t] < len(p.Threads[t]) {
				done = false
				pos[t]++
				order = append(order, t)
				rec()
				order = order[:len(order)-1]
				pos[t]--
			}
		}
		if !done {
			return
		}
		in := p.setup()
		idx := make([]int, len(p.Threads))
		for _, t := range order {
			in.runThread(t, p.Threads[t][idx[t]:idx[t]+1])
			idx[t]++
		}
		out[in.observe()] = true
	}
	rec()
	return out
}

func hprograms() []*hprog {
	add := func(x string) hop { return hop{"add", x} }
	rdy := func(x string) hop { return hop{"ready", x} }
	g := hop{K: "get"}
	return []*hprog{
		{Name: "H1 add(a);ready(a) || add(b);ready(b) || get;get",
			Threads: [][]hop{{add("a"), rdy("a")}, {add("b"), rdy("b")}, {g, g}}},
		{Name: "H2 registered a,b: ready(a) || ready(b) || get;get",
			Prefix: []hop{add("a"), add("b")}, Threads: [][]hop{{rdy("a")}, {rdy("b")}, {g, g}}},
		{Name: "H3 a ready: re-register a;ready(a) || get;get || get",
			Prefix: []hop{add("a"), rdy("a"), add("b"), rdy("b")}, Threads: [][]hop{{add("a"), rdy("a")}, {g, g}, {g}}},
		// (every program ends with a quiet probe after all threads have finished: observe())
		{Name: "H4 a ready: add(b) || get (release points)", ReleasePoints: true,
			Prefix: []hop{add("a"), rdy("a")}, Threads: [][]hop{{add("b")}, {g}}},
		{Name: "H5 a ready, b registered: ready(b) || get (release points)", ReleasePoints: true,
			Prefix: []hop{add("a"), rdy("a"), add("b")}, Threads: [][]hop{{rdy("b")}, {g}}},
		{Name: "H6 a ready: add(b);ready(b) || get;get (release points)", ReleasePoints: true,
			Prefix: []hop{add("a"), rdy("a")}, Threads: [][]hop{{add("b"), rdy("b")}, {g, g}}},
		// "all ready" is never true in these two: the not-ready component moves from b to a (from a to b) while a
		// status request walks the components - it must not see the old state of one and the new state of the other
		{Name: "H7 a ready, b not: re-register a;ready(b) || get (release points)", ReleasePoints: true,
			Prefix: []hop{add("a"), rdy("a"), add("b")}, Threads: [][]hop{{add("a"), rdy("b")}, {g}}},
		{Name: "H8 b ready, a not: re-register b;ready(a) || get (release points)", ReleasePoints: true,
			Prefix: []hop{add("a"), add("b"), rdy("b")}, Threads: [][]hop{{add("b"), rdy("a")}, {g}}},
	}
}

type hreplay struct {
	Kind    string `json:"kind"`
	Program string `json:"program"`
	Choices []int  `json:"choices"`
}

func searchConcurrent(run *mc.Run, cov *mc.Coverage) {
	defer func() { vsync.YieldAfterUnlock = false }()
	var per []map[string]any
	for _, p := range hprograms() {
		allowed := p.sequential()
		vsync.YieldAfterUnlock = p.ReleasePoints
		sp := &sched.Program{Name: p.Name}
		sp.Setup = func() any { return p.setup() }
		for t := range p.Threads {
			t := t
			sp.Threads = append(sp.Threads, func(inst any) { inst.(*hinst).runThread(t, p.Threads[t]) })
		}
		sp.Finish = func(inst any) string { return inst.(*hinst).observe() }
		iterChoice = func(n int) int { return sched.Choose(n, "iter") }
		a, b := sched.Replay(sp, nil), sched.Replay(sp, nil)
		if a.Outcome != b.Outcome {
			fmt.Println("harness self-check failed (C18b replay twice)")
			os.Exit(2)
		}
		st := sched.Explore(sp, -1, 3000000, func(x *sched.Exec) bool {
			// internal consistency of every response, on every execution
			return !run.Expired()
		})
		iterChoice = nil
		if st.Aborted || run.Expired() {
			cov.Exhaustive = false
		}
		bad := 0
		for o, ch := range st.Outcomes {
			msg := ""
			if !allowed[o] {
				msg = "responses equal those of no sequential order of the same calls"
			}
			for _, line := range strings.Split(o, "\n") {
				i := strings.Index(line, "{")
				if i < 0 {
					continue
				}
				var r response
				fmt.Sscanf(line[strings.Index(line, ": ")+2:], "%d", &r.Code)
				r.Raw = line[i:]
				_ = json.Unmarshal([]byte(r.Raw), &r.Body)
				if m := r.consistent(); m != "" {
					msg = "inconsistent snapshot: " + m
				}
			}
			if strings.HasPrefix(o, "DEADLOCK") {
				msg = "deadlock"
			}
			if msg != "" {
				bad++
				run.Violation("C18:conc:"+strings.Fields(p.Name)[0]+":"+strings.Fields(msg)[0], hreplay{"conc", p.Name, ch},
					fmt.Sprintf("program %s schedule %v: %s\n%s", p.Name, ch, msg, o))
			}
		}
		cov.States += len(st.Outcomes)
		cov.Transitions += st.Points
		cov.Traces += st.Executions
		cov.Distinct += st.Preempted
		per = append(per, map[string]any{"program": p.Name, "executions": st.Executions, "distinct_outcomes": len(st.Outcomes),
			"sequential_outcomes": len(allowed), "max_points": st.MaxPoints, "budget_hit": st.Aborted, "bad_outcomes": bad})
		fmt.Printf("C18(b) %s: executions=%d outcomes=%d (sequential %d) bad=%d\n", p.Name, st.Executions, len(st.Outcomes), len(allowed), bad)
		if len(cov.Samples) < 5 {
			for o, c := range st.Outcomes {
				cov.Samples = append(cov.Samples, map[string]any{"program": p.Name, "schedule": c, "outcome": o})
				break
			}
		}
	}
	cov.Extra["concurrent"] = per
}

// ---------- (c) WaitForReady under a virtual clock

// events: "ra","rb" ready marks; "aa" re-register a; "cancel"; "tick" (advance
// the virtual clock by the check interval). State of the returned channel
// after each event: pending / closed / err.
func waitExplore(t *testing.T, run *mc.Run, cov *mc.Coverage, maxLen int) {
	events := []string{"ra", "rb", "aa", "cancel", "tick"}
	n, distinct := 0, map[string]bool{}
	var rec func(seq []string)
	rec = func(seq []string) {
		if len(seq) > 0 {
			n++
			got, want := runWait(t, seq, false)
			distinct[strings.Join(want, ",")] = true
			// the same events with a caller that looks at the channel only after the last of them (it was busy
			// meanwhile): what it then finds must be what the eager caller found
			if lg, lw := runWait(t, seq, true); lg[len(lg)-1] != lw[len(lw)-1] {
				run.Violation("C18:wait:late-receiver:"+lw[len(lw)-1]+"-vs-"+lg[len(lg)-1], map[string]any{"kind": "wait", "events": seq, "late": true},
					fmt.Sprintf("WaitForReady with a,b registered; events %v, the caller receives only afterwards: it finds %v, expected %v", seq, lg[len(lg)-1], lw[len(lw)-1]))
			}
			if strings.Join(got, ",") != strings.Join(want, ",") {
				run.Violation("C18:wait:"+want[len(want)-1]+"-vs-"+got[len(got)-1], map[string]any{"kind": "wait", "events": seq},
					fmt.Sprintf("WaitForReady with a,b registered; events %v: channel states after each event %v, expected %v", seq, got, want))
			}
			if contains(seq, "cancel") {
				// the same with the other ways a context gets cancelled: with a cause of its own, as the child of
				// such a context, as the context of an errgroup one of whose workers failed (what the daemon passes)
				for _, shape := range ctxShapes[1:] {
					n++
					if g, w := runWaitShape(t, seq, false, shape); strings.Join(g, ",") != strings.Join(w, ",") {
						run.Violation("C18:wait:"+shape+":"+w[len(w)-1]+"-vs-"+g[len(g)-1], map[string]any{"kind": "wait", "events": seq, "shape": shape},
							fmt.Sprintf("WaitForReady with a,b registered, context cancelled as %s; events %v: channel states after each event %v, expected %v (err = the context's error)", shape, seq, g, w))
					}
				}
			}
			if len(cov.Samples) < 7 && len(seq) == maxLen {
				cov.Samples = append(cov.Samples, fmt.Sprintf("wait: %v -> %v", seq, got))
			}
		}
		if len(seq) == maxLen {
			return
		}
		for _, e := range events {
			if e == "cancel" && contains(seq, "cancel") {
				continue
			}
			rec(append(append([]string{}, seq...), e))
		}
	}
	rec(nil)
	cov.Traces += n
	cov.Transitions += n
	cov.States += len(distinct)
	cov.Extra["wait_for_ready"] = map[string]any{"event_sequences": n, "max_len": maxLen, "distinct_expected_traces": len(distinct)}
	fmt.Printf("C18(c) WaitForReady: sequences=%d distinct=%d\n", n, len(distinct))
}

func contains(s []string, x string) bool {
	for _, v := range s {
		if v == x {
			return true
		}
	}
	return false
}

var ctxShapes = []string{"plain", "cancel-cause", "child-of-cancel-cause", "errgroup-worker-failed"}

var errBoom = errors.New("worker failed: boom")

func runWait(t *testing.T, seq []string, late bool) (got, want []string) {
	return runWaitShape(t, seq, late, "plain")
}

func runWaitShape(t *testing.T, seq []string, late bool, shape string) (got, want []string) {
	synctest.Test(t, func(t *testing.T) {
		h := health.NewHealth()
		h.AddReadiness("a")
		h.AddReadiness("b")
		ctx, cancel := context.WithCancel(context.Background())
		switch shape {
		case "cancel-cause":
			c, cc := context.WithCancelCause(context.Background())
			ctx, cancel = c, func() { cc(errBoom) }
		case "child-of-cancel-cause":
			c, cc := context.WithCancelCause(context.Background())
			c2, c2c := context.WithCancel(c)
			ctx, cancel = c2, func() { cc(errBoom); c2c() }
		case "errgroup-worker-failed":
			g, c := errgroup.WithContext(context.Background())
			fail := make(chan struct{})
			g.Go(func() error { <-fail; return errBoom })
			var once sync.Once
			ctx, cancel = c, func() { once.Do(func() { close(fail); _ = g.Wait() }) }
		}
		defer cancel()
		ch := h.WaitForReady(ctx)
		synctest.Wait()
		ready := map[string]bool{}
		state := "pending"
		obs := "pending"
		for ei, e := range seq {
			switch e {
			case "ra":
				h.OnReady("a")
				ready["a"] = true
			case "rb":
				h.OnReady("b")
				ready["b"] = true
			case "aa":
				h.AddReadiness("a")
				ready["a"] = false
			case "cancel":
				cancel()
				if state == "pending" {
					state = "err"
				}
			case "tick":
				time.Sleep(health.DefaultReadyCheckInterval)
				if state == "pending" && ready["a"] && ready["b"] {
					state = "closed"
				}
			}
			synctest.Wait()
			if obs == "pending" && (!late || ei == len(seq)-1) {
				select {
				case v, ok := <-ch:
					if !ok {
						obs = "closed"
					} else if v == ctx.Err() && v == context.Canceled {
						obs = "err"
					} else {
						obs = fmt.Sprintf("value(%v)", v)
					}
				default:
				}
			}
			got = append(got, obs)
			want = append(want, state)
		}
		cancel()
		synctest.Wait()
		// let the waiter goroutine finish (it may be blocked sending the error)
		select {
		case <-ch:
		default:
		}
		synctest.Wait()
	})
	return got, want
}

func runC18(t *testing.T, run *mc.Run) int {
	if run.Replay != "" {
		var rp struct {
			Kind    string   `json:"kind"`
			History []hop    `json:"history"`
			Program string   `json:"program"`
			Choices []int    `json:"choices"`
			Events  []string `json:"events"`
			Late    bool     `json:"late"`
			Shape   string   `json:"shape"`
		}
		if _, err := mc.LoadReplay(run.Replay, &rp); err != nil {
			fmt.Println(err)
			return 2
		}
		switch rp.Kind {
		case "wait":
			if rp.Shape == "" {
				rp.Shape = "plain"
			}
			got, want := runWaitShape(t, rp.Events, rp.Late, rp.Shape)
			fmt.Println("got ", got, "\nwant", want)
			if rp.Late {
				got, want = got[len(got)-1:], want[len(want)-1:]
			}
			if strings.Join(got, ",") != strings.Join(want, ",") {
				fmt.Printf("VIOLATION property=C18 replay=%s\n", run.Replay)
				return 1
			}
		case "conc":
			for _, p := range hprograms() {
				if p.Name == rp.Program {
					sp := &sched.Program{Name: p.Name, Setup: func() any { return p.setup() }, Finish: func(i any) string { return i.(*hinst).observe() }}
					for t := range p.Threads {
						t := t
						sp.Threads = append(sp.Threads, func(inst any) { inst.(*hinst).runThread(t, p.Threads[t]) })
					}
					iterChoice = func(n int) int { return sched.Choose(n, "iter") }
					vsync.YieldAfterUnlock = p.ReleasePoints
					x := sched.Replay(sp, rp.Choices)
					vsync.YieldAfterUnlock = false
					fmt.Print(x.Outcome)
					if !p.sequential()[x.Outcome] {
						fmt.Printf("VIOLATION property=C18 replay=%s\n", run.Replay)
						return 1
					}
				}
			}
		case "seq":
			hl := health.NewHealth()
			for _, o := range rp.History {
				applyReal(hl, o)
			}
			r := getBoth(hl)
			fmt.Println(r.Code, r.Raw)
		}
		return 0
	}
	cov := mc.Coverage{Level: "model_checking", Exhaustive: true, Extra: map[string]any{}}
	cov.Rule = "(a) breadth-first search to closure over add/ready for 3 component names (and again for 2 names one of which is the reserved name 'overall', judged by status code, IsReady and the summary entry only) on the real Health, the real readyz handler queried after every transition under every map iteration order (by an ordinary request and by requests whose context is already cancelled / past its deadline: same answer); (b) every lock-granularity interleaving of 3 real goroutines (registrations, ready-marks, status requests) under the cooperative scheduler, each outcome compared with the outcomes of all sequential merges; (c) every sequence of {ready marks, re-registration, cancel, clock tick} up to the length bound delivered to the real WaitForReady goroutine in a synctest bubble, once with a caller that polls the channel after every event and once with a caller that looks only after the last event. distinct_nontrivial = complete concurrent executions with >=1 preemption"
	searchSequential(run, &cov)
	searchConcurrent(run, &cov)
	ml := 5
	if run.Thorough() {
		ml = 7
	}
	waitExplore(t, run, &cov, ml)
	cov.Evaluations = cov.Traces
	if bin := os.Getenv("VERIF_RACE_BIN"); bin != "" {
		cmd := exec.Command(bin, "-test.timeout", "0", "-test.run", "^TestCheck$")
		cmd.Env = append(os.Environ(), "VERIF_RACE_CHILD=1", "GORACE=halt_on_error=0 exitcode=66")
		out, err := cmd.CombinedOutput()
		races := strings.Count(string(out), "WARNING: DATA RACE")
		cov.Extra["race_pass"] = map[string]any{"ran": true, "data_race_reports": races}
		if races > 0 || err != nil {
			run.Violation("C18:race", map[string]any{"kind": "race"}, "free-running -race pass:\n"+tailN(string(out), 40))
		}
	} else {
		cov.Extra["race_pass"] = map[string]any{"ran": false}
	}
	cov.Assumptions = []string{"3 component names; programs of 3 threads; WaitForReady event sequences up to the stated length",
		"testing/synctest's durable-blocking semantics and virtual clock"}
	return run.Finish(cov)
}

func tailN(s string, n int) string {
	ls := strings.Split(strings.TrimRight(s, "\n"), "\n")
	if len(ls) > n {
		ls = ls[len(ls)-n:]
	}
	return strings.Join(ls, "\n")
}

func racePass() int {
	n := 0
	for _, p := range hprograms() {
		for i := 0; i < 2000; i++ {
			in := p.setup()
			var wg sync.WaitGroup
			start := make(chan struct{})
			for t := range p.Threads {
				wg.Add(1)
				go func(t int) {
					defer wg.Done()
					<-start
					in.runThread(t, p.Threads[t])
				}(t)
			}
			close(start)
			wg.Wait()
			n++
		}
	}
	fmt.Printf("{\"free_running_executions\":%d}\n", n)
	return 0
}
