//go:debug asynctimerchan=0
package phealth

import (
	"fmt"
	"os"
	"testing"

	"github.com/metal-toolbox/audito-maldito/internal/verif/mc"
)

var exitCode = 2

func TestMain(m *testing.M) {
	if os.Getenv("VERIF_PROP") == "" {
		os.Exit(m.Run())
	}
	m.Run()
	os.Exit(exitCode)
}

func TestCheck(t *testing.T) {
	prop := os.Getenv("VERIF_PROP")
	if prop != "C18" {
		if prop != "" {
			fmt.Println("unknown property", prop)
		}
		t.Skip()
	}
	if os.Getenv("VERIF_RACE_CHILD") != "" {
		exitCode = racePass()
		return
	}
	run := mc.Start(prop)
	exitCode = runC18(t, run)
}
