// Package auditgen generates audit log record lines (the text auditd writes)
// for the checks: simple records, compound SYSCALL groups, with known field
// values so that expectations are known by construction.
package auditgen

import (
	"fmt"
	"strings"
)

// Rec is one record line of a kernel event.
type Rec struct {
	Line string
	Type string
}

// Group is one kernel audit event: records sharing a timestamp:sequence.
type Group struct {
	Name    string
	Seq     int
	Sec     int64 // timestamp seconds (ms = 123)
	Recs    []Rec
	Session string
	PID     string
	Result  string // raw result token: success/failed/yes/no/1/0
	Success bool   // whether that token denotes success
	Args    []string
	Kind    string // record type of the primary record
}

func hdr(typ string, sec int64, seq int) string {
	return fmt.Sprintf("type=%s msg=audit(%d.123:%d): ", typ, sec, seq)
}

// Simple returns a single-record event of user-space type typ.
func Simple(typ string, sec int64, seq int, ses, pid, res string) Group {
	var body string
	switch typ {
	case "LOGIN":
		// kernel record: res=1 / res=0
		body = fmt.Sprintf("pid=%s uid=0 subj=system_u:system_r:sshd_t:s0-s0:c0.c1023 old-auid=4294967295 auid=9999 tty=(none) old-ses=4294967295 ses=%s res=%s", pid, ses, res)
	case "USER_CMD":
		body = fmt.Sprintf("pid=%s uid=1000 auid=9999 ses=%s subj=unconfined_u:unconfined_r:unconfined_t:s0-s0:c0.c1023 msg='cwd=\"/home/someone\" cmd=2E2F6D657472696362656174202D63206D622E6465762E796D6C terminal=pts/0 res=%s'", pid, ses, res)
	default:
		body = fmt.Sprintf("pid=%s uid=0 auid=9999 ses=%s subj=system_u:system_r:sshd_t:s0-s0:c0.c1023 msg='op=PAM:session_open grantors=pam_unix acct=\"someone\" exe=\"/usr/sbin/sshd\" hostname=10.0.0.1 addr=10.0.0.1 terminal=ssh res=%s'", pid, ses, res)
	}
	if res == "" {
		// a record without any result field (the audit result is then unknown, which is not success)
		body = strings.Replace(strings.Replace(body, " res='", "'", 1), " res=", "", 1)
	}
	ok := res == "success" || res == "1" || res == "yes"
	return Group{Name: typ, Seq: seq, Sec: sec, Session: ses, PID: pid, Result: res, Success: ok, Kind: typ,
		Recs: []Rec{{Line: hdr(typ, sec, seq) + body, Type: typ}}}
}

func hexArg(s string) string {
	if strings.ContainsAny(s, " \"") {
		return fmt.Sprintf("%X", s)
	}
	return `"` + s + `"`
}

// Syscall returns a compound event SYSCALL(+EXECVE)(+CWD)(+PATH*n)+PROCTITLE.
func Syscall(sec int64, seq int, ses, pid, success string, args []string, npath int, eoe bool) Group {
	var recs []Rec
	exit := "0"
	if success != "yes" {
		exit = "-13"
	}
	recs = append(recs, Rec{Type: "SYSCALL", Line: hdr("SYSCALL", sec, seq) + fmt.Sprintf(
		"arch=c000003e syscall=59 success=%s exit=%s a0=55d0a0 a1=55d0b0 a2=55d0c0 a3=8 items=%d ppid=100 pid=%s auid=9999 uid=9999 gid=9999 euid=9999 suid=9999 fsuid=9999 egid=9999 sgid=9999 fsgid=9999 tty=pts0 ses=%s comm=\"ls\" exe=\"/usr/bin/ls\" subj=unconfined key=(null)",
		success, exit, npath, pid, ses)})
	if len(args) > 0 {
		var b strings.Builder
		fmt.Fprintf(&b, "argc=%d", len(args))
		for i, a := range args {
			fmt.Fprintf(&b, " a%d=%s", i, hexArg(a))
		}
		recs = append(recs, Rec{Type: "EXECVE", Line: hdr("EXECVE", sec, seq) + b.String()})
	}
	recs = append(recs, Rec{Type: "CWD", Line: hdr("CWD", sec, seq) + `cwd="/home/someone"`})
	for i := 0; i < npath; i++ {
		recs = append(recs, Rec{Type: "PATH", Line: hdr("PATH", sec, seq) + fmt.Sprintf(
			`item=%d name="/usr/bin/ls%d" inode=%d dev=fd:00 mode=0100755 ouid=0 ogid=0 rdev=00:00 nametype=NORMAL cap_fp=0 cap_fi=0 cap_fe=0 cap_fver=0 cap_frootid=0`, i, i, 1000+i)})
	}
	recs = append(recs, Rec{Type: "PROCTITLE", Line: hdr("PROCTITLE", sec, seq) + "proctitle=6C73002D6C"})
	if eoe {
		recs = append(recs, Rec{Type: "EOE", Line: hdr("EOE", sec, seq)})
	}
	return Group{Name: "SYSCALL", Seq: seq, Sec: sec, Session: ses, PID: pid, Result: success, Success: success == "yes",
		Args: args, Kind: "SYSCALL", Recs: recs}
}

// Led returns a compound event whose FIRST record is not the SYSCALL record: the kernel logs an SELinux denial
// (AVC) or an audit-configuration change (CONFIG_CHANGE) before the SYSCALL record of the system call that caused
// it, and it is that leading record which classifies the event (action / how / object).
func Led(lead string, sec int64, seq int, ses, pid, success string) Group {
	exit := "0"
	if success != "yes" {
		exit = "-13"
	}
	var recs []Rec
	sysno := "2"
	switch lead {
	case "AVC":
		recs = append(recs, Rec{Type: "AVC", Line: hdr("AVC", sec, seq) + fmt.Sprintf(
			`avc:  denied  { read } for  pid=%s comm="cat" name="shadow" dev="dm-0" ino=1234 scontext=unconfined_u:unconfined_r:unconfined_t:s0 tcontext=system_u:object_r:shadow_t:s0 tclass=file permissive=0`, pid)})
	case "CONFIG_CHANGE":
		sysno = "44"
		recs = append(recs, Rec{Type: "CONFIG_CHANGE", Line: hdr("CONFIG_CHANGE", sec, seq) + fmt.Sprintf(
			`auid=9999 ses=%s subj=unconfined op=add_rule key="watch-shadow" list=4 res=1`, ses)})
	}
	recs = append(recs, Rec{Type: "SYSCALL", Line: hdr("SYSCALL", sec, seq) + fmt.Sprintf(
		"arch=c000003e syscall=%s success=%s exit=%s a0=55d0a0 a1=55d0b0 a2=55d0c0 a3=8 items=0 ppid=100 pid=%s auid=9999 uid=9999 gid=9999 euid=9999 suid=9999 fsuid=9999 egid=9999 sgid=9999 fsgid=9999 tty=pts0 ses=%s comm=\"cat\" exe=\"/usr/bin/cat\" subj=unconfined key=(null)",
		sysno, success, exit, pid, ses)})
	recs = append(recs, Rec{Type: "PROCTITLE", Line: hdr("PROCTITLE", sec, seq) + "proctitle=636174002F6574632F736861646F77"})
	return Group{Name: lead + "+SYSCALL", Seq: seq, Sec: sec, Session: ses, PID: pid, Result: success, Success: success == "yes", Kind: lead, Recs: recs}
}

// Aux returns a compound event that contains one of the auxiliary record types the kernel adds for particular
// system calls - SOCKADDR (connect/bind/accept: the peer address becomes the event's object), SOCKETCALL, FD_PAIR
// (pipe), MMAP, CAPSET, BPRM_FCAPS (exec of a file with capabilities).
func Aux(kind string, sec int64, seq int, ses, pid, success string) Group {
	exit := "0"
	if success != "yes" {
		exit = "-111"
	}
	sys := func(no, comm string) Rec {
		return Rec{Type: "SYSCALL", Line: hdr("SYSCALL", sec, seq) + fmt.Sprintf(
			"arch=c000003e syscall=%s success=%s exit=%s a0=3 a1=7ffc0a0 a2=10 a3=0 items=0 ppid=100 pid=%s auid=9999 uid=9999 gid=9999 euid=9999 suid=9999 fsuid=9999 egid=9999 sgid=9999 fsgid=9999 tty=pts0 ses=%s comm=\"%s\" exe=\"/usr/bin/%s\" subj=unconfined key=(null)",
			no, success, exit, pid, ses, comm, comm)}
	}
	var recs []Rec
	switch kind {
	case "SOCKADDR": // connect(2) to 10.1.2.3:443
		recs = append(recs, sys("42", "curl"), Rec{Type: "SOCKADDR", Line: hdr("SOCKADDR", sec, seq) + "saddr=020001BB0A0102030000000000000000"})
	case "SOCKADDR6": // bind(2) to [::1]:8080
		recs = append(recs, sys("49", "nc"), Rec{Type: "SOCKADDR", Line: hdr("SOCKADDR", sec, seq) + "saddr=0A00" + "1F90" + "00000000" + "00000000000000000000000000000001" + "00000000"})
	case "SOCKADDR-unix": // connect(2) to /run/x.sock
		recs = append(recs, sys("42", "logger"), Rec{Type: "SOCKADDR", Line: hdr("SOCKADDR", sec, seq) + "saddr=01002F72756E2F782E736F636B00"})
	case "SOCKETCALL":
		recs = append(recs, sys("102", "wget"), Rec{Type: "SOCKETCALL", Line: hdr("SOCKETCALL", sec, seq) + "nargs=3 a0=3 a1=ffd0a0 a2=10"},
			Rec{Type: "SOCKADDR", Line: hdr("SOCKADDR", sec, seq) + "saddr=02000035080808080000000000000000"})
	case "OBJ_PID": // kill(2) of a daemon that belongs to no session: the target is described with oses=4294967295
		recs = append(recs, sys("62", "kill"), Rec{Type: "OBJ_PID", Line: hdr("OBJ_PID", sec, seq) + `opid=812 oauid=4294967295 ouid=0 oses=4294967295 obj=system_u:system_r:crond_t:s0 ocomm="crond"`})
	case "FD_PAIR":
		recs = append(recs, sys("293", "sh"), Rec{Type: "FD_PAIR", Line: hdr("FD_PAIR", sec, seq) + "fd0=3 fd1=4"})
	case "MMAP":
		recs = append(recs, sys("9", "ld"), Rec{Type: "MMAP", Line: hdr("MMAP", sec, seq) + "fd=3 flags=0x2"})
	case "CAPSET":
		recs = append(recs, sys("126", "capsh"), Rec{Type: "CAPSET", Line: hdr("CAPSET", sec, seq) + fmt.Sprintf("pid=%s cap_pi=0000000000000000 cap_pp=0000000000000400 cap_pe=0000000000000400 cap_pa=0", pid)})
	case "BPRM_FCAPS":
		recs = append(recs, sys("59", "ping"), Rec{Type: "BPRM_FCAPS", Line: hdr("BPRM_FCAPS", sec, seq) + "fver=2 fp=0000000000002000 fi=0 fe=1 old_pp=0 old_pi=0 old_pe=0 old_pa=0 pp=0000000000002000 pi=0 pe=0000000000002000 pa=0 frootid=0"},
			Rec{Type: "EXECVE", Line: hdr("EXECVE", sec, seq) + `argc=2 a0="ping" a1="10.0.0.1"`})
	}
	recs = append(recs, Rec{Type: "PROCTITLE", Line: hdr("PROCTITLE", sec, seq) + "proctitle=6375726C"})
	g := Group{Name: "SYSCALL+" + kind, Seq: seq, Sec: sec, Session: ses, PID: pid, Result: success, Success: success == "yes", Kind: "SYSCALL", Recs: recs}
	if kind == "BPRM_FCAPS" {
		g.Args = []string{"ping", "10.0.0.1"}
	}
	return g
}

// AuxKinds lists the auxiliary-record groups.
var AuxKinds = []string{"OBJ_PID", "SOCKADDR", "SOCKADDR6", "SOCKADDR-unix", "SOCKETCALL", "FD_PAIR", "MMAP", "CAPSET", "BPRM_FCAPS"}

var SimpleTypes = []string{"LOGIN", "USER_START", "USER_END", "CRED_ACQ", "CRED_DISP", "USER_ACCT", "USER_AUTH", "USER_CMD", "USER_LOGIN", "CRED_REFR"}

// Groups enumerates the full product of the generator's parameters.
func Groups(thorough bool) []Group {
	var out []Group
	seq := 1000
	next := func() int { seq++; return seq }
	sess := []string{"7"}
	if thorough {
		sess = []string{"7", "4294967295", "123456"}
	}
	for _, ses := range sess {
		for _, typ := range SimpleTypes {
			ress := []string{"success", "failed"}
			if typ == "LOGIN" {
				ress = []string{"1", "0"}
			}
			if typ == "USER_START" || typ == "USER_CMD" {
				ress = append(ress, "") // no result field at all
			}
			for _, res := range ress {
				out = append(out, Simple(typ, 1700000000+int64(seq%50), next(), ses, "4242", res))
			}
		}
		// numeric limits: the last serial before the kernel's counter wraps, a timestamp beyond 2038, the largest pid
		out = append(out, Simple("USER_START", 4102444800, 4294967295, ses, "4194304", "success"))
		out = append(out, Simple("USER_END", 4102444800, 0, ses, "4194304", "failed"))
		for _, lead := range []string{"AVC", "CONFIG_CHANGE"} {
			for _, succ := range []string{"yes", "no"} {
				out = append(out, Led(lead, 1700000000+int64(seq%50), next(), ses, "4243", succ))
			}
		}
		for _, kind := range AuxKinds {
			for _, succ := range []string{"yes", "no"} {
				out = append(out, Aux(kind, 1700000000+int64(seq%50), next(), ses, "4243", succ))
			}
		}
		for _, succ := range []string{"yes", "no"} {
			for _, args := range [][]string{nil, {"ls"}, {"ls", "-l", "my file"}, {"sh", "-c", strings.Repeat("A", 257), strings.Repeat("long arg ", 300)}, manyArgs(255), manyArgs(256), manyArgs(300),
				{"mount", "UUID=0a1b-2c3d", "/mnt"}, {"make", "ARCH=arm64", "SYSCALL=x", "defconfig"}, {"grep", "ses=4294967295", "/var/log/audit/audit.log"}, {"docker", "run", "-e", "PUID=1000", "-e", "PGID=1000", "msg=audit(1.1:1):", "type=EXECVE"}} {
				for _, np := range []int{0, 1, 2} {
					for _, eoe := range []bool{false, true} {
						if !thorough && eoe && np == 2 {
							continue
						}
						out = append(out, Syscall(1700000000+int64(seq%50), next(), ses, "4243", succ, args, np, eoe))
					}
				}
			}
		}
	}
	return out
}

// AllLines returns every record line of every generated group.
func AllLines(thorough bool) []string {
	var out []string
	for _, g := range Groups(thorough) {
		for _, r := range g.Recs {
			out = append(out, r.Line)
		}
	}
	return out
}

// manyArgs: an argument vector of n short arguments (rm f1 f2 ...), still one EXECVE record.
func manyArgs(n int) []string {
	out := []string{"rm"}
	for i := 1; i < n; i++ {
		out = append(out, fmt.Sprintf("f%d", i))
	}
	return out
}
