package ptracker

import (
	"encoding/json"
	"fmt"
	"os"
	"os/exec"
	"sort"
	"strings"
	"sync"
	"time"

	"github.com/metal-toolbox/audito-maldito/internal/verif/mc"
	"github.com/metal-toolbox/audito-maldito/internal/verif/sched"
	"github.com/metal-toolbox/audito-maldito/internal/verif/vsync"
)

// A concurrent program over the tracker: a sequential prefix, 2-3 threads of
// API calls (the production callers: the Read loop delivering logins and
// cleanup, the parseAuditLogs goroutine and the maintainReassemblerLoop
// goroutine delivering audit events) and a sequential probe suffix that makes
// "both halves left waiting" visible as missing output.
type cprog struct {
	Name    string
	Sess    []SessDef
	Logins  []LoginDef
	Prefix  []Op
	Threads [][]Op
	Suffix  []Op
	Bound   int // -1: all interleavings (with visited-state pruning); else max preemptions
	// Release: lock releases are scheduling points too (vsync.YieldAfterUnlock): whatever the tracker does
	// between letting go of a lock and its next acquisition can be overtaken by the other threads
	Release bool
	// NoWritePoints: output writes are no scheduling points (a flush of a thousand held events)
	NoWritePoints bool
}

// Cleanup ops inside programs use Cut=-1: the instant recorded after the
// prefix (production's cut-off is a minute in the past: it can only hit halves
// that were already waiting, never those delivered concurrently).

type cinst struct {
	w    *World
	errs [][]string
	mu   sync.Mutex
}

func (p *cprog) setup() *cinst {
	w := NewWorld(p.Sess, p.Logins)
	for _, o := range p.Prefix {
		if err := w.Apply(o); err != nil {
			panic(fmt.Sprintf("prefix op %s failed: %v", o, err))
		}
	}
	w.cut = w.now()
	w.now()
	used := map[int]bool{}
	for _, o := range p.Prefix {
		if o.K == "L" {
			used[o.I] = true
		}
	}
	for i := range p.Logins {
		if !used[i] {
			w.mkLogin(i)
		}
	}
	w.concMode = true
	w.Rec.NoPoints = p.NoWritePoints
	in := &cinst{w: w, errs: make([][]string, len(p.Threads))}
	return in
}

func (in *cinst) runOps(t int, ops []Op) {
	for _, o := range ops {
		var err error
		s := ""
		func() {
			defer func() {
				if r := recover(); r != nil {
					if _, isRuntimeExit := r.(error); !isRuntimeExit || true {
						s = fmt.Sprintf("PANIC: %v", r)
					}
				}
			}()
			err = in.w.applyConc(o)
		}()
		if err != nil {
			s = err.Error()
		}
		if t >= 0 {
			in.errs[t] = append(in.errs[t], s)
		} else if s != "" {
			in.mu.Lock()
			in.errs[0] = append(in.errs[0], "suffix:"+s)
			in.mu.Unlock()
		}
	}
}

// observe renders the outcome judged by the oracle: per session the emitted
// (event, identity) sequence, plus every error an operation returned.
func (p *cprog) observe(in *cinst) string {
	idname := map[string]string{}
	for i := range p.Logins {
		idname[in.w.Ident(i)] = fmt.Sprintf("L%d", i)
	}
	per := map[string][]string{}
	for _, e := range in.w.Rec.From(0) {
		n, ok := idname[e.Identity]
		if !ok {
			n = "?" + e.Identity
		}
		if e.Type == "BAD" {
			per["BAD"] = append(per["BAD"], e.Raw)
			continue
		}
		per[e.Sess] = append(per[e.Sess], e.Label+"/"+n)
	}
	var keys []string
	for k := range per {
		keys = append(keys, k)
	}
	sort.Strings(keys)
	var b strings.Builder
	for _, k := range keys {
		fmt.Fprintf(&b, "ses %s: %s\n", k, strings.Join(per[k], " "))
	}
	for t, es := range in.errs {
		for i, e := range es {
			if e != "" {
				fmt.Fprintf(&b, "err T%d op%d: %s\n", t, i, e)
			}
		}
	}
	return b.String()
}

// sequentialOutcomes runs every merge of the threads' programs (each API call
// atomic, program order kept) on the real tracker, with every Iterate order.
func (p *cprog) sequentialOutcomes() (map[string]string, int) {
	out := map[string]string{}
	n := 0
	pos := make([]int, len(p.Threads))
	var order []int
	var rec func()
	rec = func() {
		done := true
		for t := range p.Threads {
			if pos[t] < len(p.Threads[t]) {
				done = false
				pos[t]++
				order = append(order, t)
				rec()
				order = order[:len(order)-1]
				pos[t]--
			}
		}
		if !done {
			return
		}
		// run this order with every choice vector
		var perms func(pre []int)
		perms = func(pre []int) {
			in := p.setup()
			ch := &chooser{pre: pre}
			setChooser(in.w, ch)
			idx := make([]int, len(p.Threads))
			for _, t := range order {
				in.runOps(t, p.Threads[t][idx[t]:idx[t]+1])
				idx[t]++
			}
			in.runOps(-1, p.Suffix)
			setChooser(in.w, nil)
			o := p.observe(in)
			in.w.Close()
			n++
			if _, ok := out[o]; !ok {
				out[o] = fmt.Sprint(order)
			}
			for i := len(pre); i < len(ch.sizes); i++ {
				for alt := 1; alt < ch.sizes[i]; alt++ {
					perms(append(append([]int{}, ch.taken[:i]...), alt))
				}
			}
		}
		perms(nil)
	}
	rec()
	return out, n
}

func (p *cprog) program() *sched.Program {
	sp := &sched.Program{Name: p.Name}
	sp.Setup = func() any { return p.setup() }
	for t := range p.Threads {
		t := t
		sp.Threads = append(sp.Threads, func(inst any) { inst.(*cinst).runOps(t, p.Threads[t]) })
	}
	sp.Finish = func(inst any) string {
		in := inst.(*cinst)
		in.runOps(-1, p.Suffix)
		o := p.observe(in)
		in.w.Close()
		return o
	}
	sp.Shared = func(inst any) string {
		in := inst.(*cinst)
		return in.w.Key() + "\n" + strings.Join(in.w.Rec.Writes, "")
	}
	return sp
}

func concPrograms(thorough bool) []*cprog {
	ev3 := []SessDef{
		{ID: "1", PID: "101", Events: full4},
		{ID: "2", PID: "102", Events: full4},
	}
	l2 := []LoginDef{{PID: 101}, {PID: 102}}
	A := func(s, e int) Op { return Op{K: "A", I: s, J: e} }
	L := func(i int) Op { return Op{K: "L", I: i} }
	CU, CR := Op{K: "CU", Cut: -1}, Op{K: "CR", Cut: -1}
	probe1 := []Op{A(0, 3), A(0, 2)}                   // EV(s1), DISP(s1)
	probe2 := []Op{A(0, 3), A(0, 2), A(1, 3), A(1, 2)} // + same for s2
	ps := []*cprog{
		{Name: "P1 login || LOGIN+EV", Sess: ev3, Logins: l2, Bound: -1,
			Threads: [][]Op{{L(0)}, {A(0, 0), A(0, 1)}}, Suffix: probe1},
		{Name: "P3 cleanup;login || LOGIN+EV", Sess: ev3, Logins: l2, Bound: -1,
			Threads: [][]Op{{CU, CR, L(0)}, {A(0, 0), A(0, 1)}}, Suffix: probe1},
		{Name: "P5 login || EV;DISP || EV (session open)", Sess: ev3, Logins: l2, Bound: -1,
			Prefix: []Op{A(0, 0)}, Threads: [][]Op{{L(0)}, {A(0, 1), A(0, 2)}, {A(0, 3)}}, Suffix: []Op{A(0, 3)}},
		{Name: "P6 cleanup of a stale waiting login || LOGIN+EV", Sess: ev3, Logins: l2, Bound: -1,
			Prefix: []Op{L(0)}, Threads: [][]Op{{CU, CR}, {A(0, 0), A(0, 1)}}, Suffix: probe1},
		{Name: "P7 cleanup of a stale waiting session || login || EV", Sess: ev3, Logins: l2, Bound: -1,
			Prefix: []Op{A(0, 0)}, Threads: [][]Op{{CU, CR}, {L(0)}, {A(0, 1)}}, Suffix: probe1},
	}
	ps = append(ps, &cprog{Name: "P9 stale session: cleanup;login (one thread, as in the Read loop) || events of another session", Sess: ev3, Logins: l2, Bound: -1,
		Prefix: []Op{A(0, 0)}, Threads: [][]Op{{CU, CR, L(0)}, {A(1, 0), A(1, 1)}}, Suffix: probe2})
	// P10: records without a usable session (kernel daemons: "unset", or none at all) arrive from two threads
	// next to ordinary traffic; nothing of them is tracked or emitted, and - in the free-running race pass -
	// whatever the tracker does for them before taking a lock is exercised by two goroutines at once.
	ev4 := append(append([]SessDef{}, ev3...), SessDef{ID: "unset", PID: "103", Events: full4}, SessDef{ID: "", PID: "104", Events: full4})
	ps = append(ps, &cprog{Name: "P10 session-less records from two threads || login", Sess: ev4, Logins: l2, Bound: -1,
		Prefix: []Op{A(0, 0)}, Threads: [][]Op{{A(2, 0), A(2, 3), A(0, 1)}, {A(3, 3), A(2, 1), A(3, 0)}, {L(0)}}, Suffix: probe1})
	// P12: the reassembler hands events over from two goroutines (the one that pushes records and the one that
	// evicts on a timer): two consecutive records of one session are delivered by different threads at once
	ps = append(ps, &cprog{Name: "P12 LOGIN || the session's next record (two delivering threads) || login", Sess: ev3, Logins: l2, Bound: -1,
		Threads: [][]Op{{A(0, 0)}, {A(0, 1)}, {L(0)}}, Suffix: probe1})
	// P13: the end of a session that HAS its login, against the session's next record from the other delivering
	// thread: the record is either before the end (emitted, then the end) or after it (dropped) - never emitted
	// after the end
	ps = append(ps, &cprog{Name: "P13 credential disposal of a correlated session || the session's next record", Sess: ev3, Logins: l2, Bound: -1,
		Prefix: []Op{L(0), A(0, 0), A(0, 1)}, Threads: [][]Op{{A(0, 2)}, {A(0, 3)}}, Suffix: []Op{A(0, 3), A(1, 0)}})
	// P11: a session that has collected more than a thousand records before its login arrives (a busy session,
	// a slow sshd pipe): the flush of the hold queue is one step as far as the session's further records go -
	// a record arriving meanwhile comes after everything held, whatever the flush does with the locks
	// (scheduling points: lock acquisitions and releases; the 1100 writes themselves are not)
	long := append(full4[:0:0], tLOGIN)
	for i := 0; i < 1101; i++ {
		long = append(long, tEV)
	}
	var held []Op
	for i := 0; i < 1100; i++ {
		held = append(held, A(0, i))
	}
	ps = append(ps, &cprog{Name: "P11 login flushing 1100 held records || the session's next record", Sess: []SessDef{{ID: "1", PID: "101", Events: long}, ev3[1]}, Logins: l2, Bound: -1,
		NoWritePoints: true, Prefix: held, Threads: [][]Op{{L(0)}, {A(0, 1100), A(0, 1101)}}})
	big := []*cprog{
		{Name: "P2 login || LOGIN+EV || LOGIN+EV of another session", Sess: ev3, Logins: l2, Bound: -1,
			Threads: [][]Op{{L(0)}, {A(0, 0), A(0, 1)}, {A(1, 0), A(1, 1)}}, Suffix: probe2},
		{Name: "P4 two logins || LOGIN || LOGIN", Sess: ev3, Logins: l2, Bound: -1,
			Threads: [][]Op{{L(0), L(1)}, {A(0, 0)}, {A(1, 0)}}, Suffix: probe2},
		{Name: "P8 login;cleanup;login || LOGIN+EV || LOGIN+EV", Sess: ev3, Logins: l2, Bound: -1,
			Threads: [][]Op{{L(0), CU, CR, L(1)}, {A(0, 0), A(0, 1)}, {A(1, 0), A(1, 1)}}, Suffix: probe2},
	}
	// the cheapest programs first: under a change that multiplies the scheduling points (a lock-free structure
	// whose every operation is a point) the tier's time may run out in the largest program, and whatever comes
	// after it would not be explored at all
	sort.SliceStable(ps, func(i, j int) bool {
		cost := func(p *cprog) int {
			n := 1
			for _, t := range p.Threads {
				n *= 1 + 2*len(t)
			}
			return n * len(p.Threads)
		}
		return cost(ps[i]) < cost(ps[j])
	})
	// the two-thread programs once more with releases as scheduling points (preemption-bounded: the space
	// multiplies)
	for _, p := range append([]*cprog{}, ps...) {
		if len(p.Threads) != 2 {
			continue
		}
		q := *p
		q.Name = strings.Replace(p.Name, " ", "r ", 1) + " [release points]"
		q.Release = true
		q.Bound = 2
		if thorough {
			q.Bound = -1
		}
		ps = append(ps, &q)
	}
	if thorough {
		return append(ps, big...)
	}
	// quick: the two 3-thread programs with a preemption bound
	q := *big[0]
	q.Bound = 2
	return append(ps, &q)
}

var full4 = configs("C01", false)[0].Sess[0].Events

type concReplay struct {
	Program string `json:"program"`
	Choices []int  `json:"choices"`
}

func runConc(run *mc.Run) int {
	if os.Getenv("VERIF_RACE_CHILD") != "" {
		return racePass()
	}
	progs := concPrograms(run.Thorough())
	if run.Replay != "" {
		var rp concReplay
		if _, err := mc.LoadReplay(run.Replay, &rp); err != nil {
			fmt.Println("cannot load replay:", err)
			return 2
		}
		for _, p := range concPrograms(true) {
			if p.Name == rp.Program {
				schedChoose = func(n int) int { return sched.Choose(n, "iter") }
				vsync.YieldAfterUnlock = p.Release
				x := sched.Replay(p.program(), rp.Choices)
				vsync.YieldAfterUnlock = false
				allowed, _ := p.sequentialOutcomes2()
				fmt.Printf("outcome:\n%s", x.Outcome)
				if _, ok := allowed[x.Outcome]; !ok {
					run.Violation("C03:"+strings.Fields(p.Name)[0]+":not-sequential", rp, "outcome equals no sequential order:\n"+x.Outcome)
					return 1
				}
				return 0
			}
		}
		return 2
	}
	// vacuity guard: a known check-then-act race on the shimmed mutex must show both of its outcomes,
	// and a known lock-order inversion must show a deadlock, before any verdict is trusted
	if msg := schedulerCanary(); msg != "" {
		fmt.Println("scheduler self-test failed:", msg)
		return 2
	}
	cov := mc.Coverage{Level: "model_checking", Exhaustive: true, Extra: map[string]any{}}
	cov.Rule = "stateless DFS over every interleaving (scheduling points = every real Lock acquisition of the shimmed sync package, thread start/end; every Iterate order) of small concurrent programs on the real sessionTracker; unbounded preemptions with visited-state pruning unless a bound is listed; oracle: outcome (per-session emitted sequence with identities + returned errors, after a probe suffix) must equal the outcome of some sequential merge of the same calls on the real tracker; deadlock = no enabled thread. distinct_nontrivial = complete executions with >=1 preemption"
	var per []map[string]any
	for _, p := range progs {
		schedChoose = nil
		allowed, nseq := p.sequentialOutcomes2()
		schedChoose = func(n int) int { return sched.Choose(n, "iter") }
		sp := p.program()
		vsync.YieldAfterUnlock = p.Release
		// determinism self-check: one schedule twice
		a, b := sched.Replay(sp, nil), sched.Replay(sp, nil)
		if a.Outcome != b.Outcome || fmt.Sprint(a.Choices) != fmt.Sprint(b.Choices) {
			fmt.Println("harness self-check failed: replaying one schedule twice gave different observations")
			return 2
		}
		budget := 400000
		if run.Thorough() {
			budget = 6000000
		}
		st := sched.Explore(sp, p.Bound, budget, func(x *sched.Exec) bool { return !run.Expired() })
		schedChoose = nil
		vsync.YieldAfterUnlock = false
		if st.Aborted || run.Expired() {
			cov.Exhaustive = false
		}
		var bad []string
		for o, choices := range st.Outcomes {
			if _, ok := allowed[o]; ok && !strings.Contains(o, "PANIC") && !strings.HasPrefix(o, "DEADLOCK") {
				continue
			}
			bad = append(bad, o)
			class := "not-sequential"
			if strings.HasPrefix(o, "DEADLOCK") {
				class = "deadlock"
			} else if strings.Contains(o, "PANIC") {
				class = "panic"
			}
			var alw []string
			for k := range allowed {
				alw = append(alw, k)
			}
			sort.Strings(alw)
			run.Violation("C03:"+strings.Fields(p.Name)[0]+":"+class, concReplay{p.Name, choices},
				fmt.Sprintf("program %s, schedule %v (%d executions end like this)\noutcome:\n%sequals no sequential order; sequential outcomes are:\n%s",
					p.Name, choices, st.OutcomeN[o], o, strings.Join(alw, "--\n")))
		}
		cov.States += st.States
		cov.Transitions += st.Points
		cov.Traces += st.Executions
		cov.Evaluations += st.Executions
		cov.Distinct += st.Preempted
		per = append(per, map[string]any{"program": p.Name, "threads": len(p.Threads), "preemption_bound": p.Bound,
			"executions": st.Executions, "complete": st.Complete, "pruned_by_visited_state": st.Pruned, "states": st.States,
			"max_points": st.MaxPoints, "distinct_outcomes": len(st.Outcomes), "sequential_reference_runs": nseq,
			"sequential_outcomes": len(allowed), "budget_hit": st.Aborted, "outcomes_not_sequential": len(bad)})
		fmt.Printf("%s: executions=%d complete=%d pruned=%d states=%d maxpoints=%d outcomes=%d (sequential: %d) bad=%d aborted=%v\n",
			p.Name, st.Executions, st.Complete, st.Pruned, st.States, st.MaxPoints, len(st.Outcomes), len(allowed), len(bad), st.Aborted)
		if len(cov.Samples) < 4 {
			for o, c := range st.Outcomes {
				cov.Samples = append(cov.Samples, map[string]any{"program": p.Name, "schedule": c, "outcome": o})
				break
			}
		}
	}
	cov.Extra["concurrent_programs"] = per
	// free-running race pass in a separate binary
	if bin := os.Getenv("VERIF_RACE_BIN"); bin != "" {
		cmd := exec.Command(bin, "-test.timeout", "0", "-test.run", "^TestCheck$")
		cmd.Env = append(os.Environ(), "VERIF_RACE_CHILD=1", "GORACE=halt_on_error=0 exitcode=66")
		out, err := cmd.CombinedOutput()
		races := strings.Count(string(out), "WARNING: DATA RACE")
		cov.Extra["race_pass"] = map[string]any{"ran": true, "data_race_reports": races, "tail": tail(string(out), 3)}
		if races > 0 || err != nil {
			rp := map[string]any{"race_output": tail(string(out), 60)}
			run.Violation("C03:race", rp, "the free-running -race pass over the same thread bodies reported:\n"+tail(string(out), 40))
		}
	} else {
		cov.Extra["race_pass"] = map[string]any{"ran": false}
		cov.Exhaustive = false
		run.Note("race binary missing: unsynchronised accesses not checked in this run")
	}
	cov.Assumptions = []string{"interleavings are explored at lock-acquisition granularity; accesses outside locks are covered only by the separate free-running -race pass (sampling of schedules, used only to detect unsynchronised accesses)",
		"programs bounded to 2-3 threads of 1-4 calls"}
	return run.Finish(cov)
}

func (p *cprog) sequentialOutcomes2() (map[string]string, int) { return p.sequentialOutcomes() }

func tail(s string, n int) string {
	ls := strings.Split(strings.TrimRight(s, "\n"), "\n")
	if len(ls) > n {
		ls = ls[len(ls)-n:]
	}
	return strings.Join(ls, "\n")
}

// racePass runs the same thread bodies as free goroutines under -race.
func racePass() int {
	iters := 300
	if os.Getenv("VERIF_TIER") == "thorough" {
		iters = 3000
	}
	n := 0
	deadline := time.Now().Add(60 * time.Second)
	for _, p := range concPrograms(true) {
		iters := iters
		if len(p.Prefix) > 100 {
			iters /= 30 // (a prefix of a thousand calls costs what thirty ordinary executions cost)
		}
		for i := 0; i < iters && time.Now().Before(deadline); i++ {
			in := p.setup()
			var wg sync.WaitGroup
			start := make(chan struct{})
			for t := range p.Threads {
				wg.Add(1)
				go func(t int) {
					defer wg.Done()
					<-start
					in.runOps(t, p.Threads[t])
				}(t)
			}
			close(start)
			wg.Wait()
			in.runOps(-1, p.Suffix)
			in.w.Close()
			n++
		}
	}
	b, _ := json.Marshal(map[string]any{"free_running_executions": n})
	fmt.Println(string(b))
	return 0
}

// schedulerCanary explores four tiny programs whose behaviour under all interleavings is known.
func schedulerCanary() string {
	type box struct {
		mu, mu2 vsync.Mutex
		x       int
	}
	incr := func(inst any) {
		b := inst.(*box)
		b.mu.Lock()
		t := b.x
		b.mu.Unlock()
		b.mu.Lock()
		b.x = t + 1
		b.mu.Unlock()
	}
	p := &sched.Program{Name: "canary-lost-update",
		Setup:   func() any { return &box{} },
		Threads: []func(any){incr, incr},
		Finish:  func(inst any) string { return fmt.Sprint(inst.(*box).x) },
	}
	st := sched.Explore(p, -1, 10000, nil)
	if len(st.Outcomes) != 2 || st.OutcomeN["1"] == 0 || st.OutcomeN["2"] == 0 {
		return fmt.Sprintf("lost-update canary: outcomes %v, want both 1 and 2", st.OutcomeN)
	}
	ab := func(inst any) { b := inst.(*box); b.mu.Lock(); b.mu2.Lock(); b.mu2.Unlock(); b.mu.Unlock() }
	ba := func(inst any) { b := inst.(*box); b.mu2.Lock(); b.mu.Lock(); b.mu.Unlock(); b.mu2.Unlock() }
	p2 := &sched.Program{Name: "canary-lock-order", Setup: func() any { return &box{} }, Threads: []func(any){ab, ba},
		Finish: func(any) string { return "done" }}
	st2 := sched.Explore(p2, -1, 10000, nil)
	dead := 0
	for o, n := range st2.OutcomeN {
		if strings.HasPrefix(o, "DEADLOCK") {
			dead += n
		}
	}
	if dead == 0 || st2.OutcomeN["done"] == 0 {
		return fmt.Sprintf("lock-order canary: outcomes %v, want both completion and deadlock", st2.OutcomeN)
	}
	// a recursive read lock deadlocks exactly when a writer arrives between the two RLock calls (writer preference)
	type rwbox struct{ rw vsync.RWMutex }
	rr := func(inst any) { b := inst.(*rwbox); b.rw.RLock(); b.rw.RLock(); b.rw.RUnlock(); b.rw.RUnlock() }
	wr := func(inst any) { b := inst.(*rwbox); b.rw.Lock(); b.rw.Unlock() }
	p3 := &sched.Program{Name: "canary-recursive-rlock", Setup: func() any { return &rwbox{} }, Threads: []func(any){rr, wr},
		Finish: func(any) string { return "done" }}
	st3 := sched.Explore(p3, -1, 10000, nil)
	dead = 0
	for o, n := range st3.OutcomeN {
		if strings.HasPrefix(o, "DEADLOCK") {
			dead += n
		}
	}
	if dead == 0 || st3.OutcomeN["done"] == 0 {
		return fmt.Sprintf("recursive-rlock canary: outcomes %v, want both completion and deadlock", st3.OutcomeN)
	}
	// an iteration over the sync.Map shim can see a store that lands between two of its visits
	type mbox struct{ m vsync.Map }
	walk := func(inst any) {
		b := inst.(*mbox)
		sum := 0
		b.m.Range(func(_, v any) bool { sum += v.(int); return true })
		b.m.Store("sum", sum)
	}
	move := func(inst any) { b := inst.(*mbox); b.m.Store("a", 0); b.m.Store("b", 1) }
	p4 := &sched.Program{Name: "canary-map-range", Setup: func() any { b := &mbox{}; b.m.Store("a", 1); b.m.Store("b", 0); return b },
		Threads: []func(any){walk, move}, Finish: func(inst any) string { v, _ := inst.(*mbox).m.Load("sum"); return fmt.Sprint(v) }}
	st4 := sched.Explore(p4, -1, 10000, nil)
	if st4.OutcomeN["2"] == 0 || st4.OutcomeN["1"] == 0 {
		return fmt.Sprintf("map-range canary: outcomes %v, want the torn sum 2 (old a + new b) next to 1", st4.OutcomeN)
	}
	return ""
}

// concDuplicates is C10's concurrent half at the correlator: every interleaving of the C03 programs, judged
// only for "no event is written twice and every write is one whole event".
func concDuplicates(run *mc.Run) {
	if msg := schedulerCanary(); msg != "" {
		run.Note("scheduler self-test failed: %s", msg)
		return
	}
	execs := 0
	for _, p := range concPrograms(run.Thorough()) {
		schedChoose = func(n int) int { return sched.Choose(n, "iter") }
		st := sched.Explore(p.program(), p.Bound, 400000, func(x *sched.Exec) bool { return !run.Expired() })
		schedChoose = nil
		execs += st.Executions
		for o, choices := range st.Outcomes {
			bad := ""
			for _, line := range strings.Split(o, "\n") {
				if strings.HasPrefix(line, "ses BAD") {
					bad = "a write did not carry exactly one whole JSON event: " + line
				}
				if !strings.HasPrefix(line, "ses ") {
					continue
				}
				seen := map[string]bool{}
				for _, ev := range strings.Fields(line)[2:] {
					if seen[ev] {
						bad = "event " + ev + " was written twice: " + line
					}
					seen[ev] = true
				}
			}
			if bad != "" {
				run.Violation("C10:conc:"+strings.Fields(p.Name)[0]+":"+strings.Join(strings.Fields(bad)[:3], "_"), concReplay{p.Name, choices},
					fmt.Sprintf("program %s, schedule %v: %s", p.Name, choices, bad))
			}
		}
	}
	run.Note("concurrent half: %d executions of the C03 programs under the scheduler judged for duplicate / torn writes", execs)
}
