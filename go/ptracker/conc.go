package ptracker

import "github.com/metal-toolbox/audito-maldito/internal/verif/mc"

func runConc(run *mc.Run) int { return 2 }
