package ptracker
