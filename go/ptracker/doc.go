package ptracker // needs:race
