package ptracker

import (
	"fmt"
	"sort"
	"strconv"
	"strings"

	"github.com/elastic/go-libaudit/v2/auparse"
)

// The reference model: what the properties C01/C02/C04/C09/C16 *require* of
// the correlator, with everything they leave open kept open ("may").

const (
	sUnopened = iota
	sUnbound
	sBound
	sEnded
	sDiscarded
)

const (
	lAbsent = iota
	lParked
	lBound
	lDiscarded
)

type specSess struct {
	status  int
	pid     int
	pidOK   bool
	login   int
	created int   // op index of the LOGIN record
	held    []int // event indices held while unbound
	pos     int   // events processed so far
}

type specLogin struct {
	status  int
	created int
	sess    int
}

// Emit is one expected output event.
type Emit struct {
	Sess, Idx, Login int
}

type Spec struct {
	sess   []specSess
	logins []specLogin
	defs   []SessDef
	ldefs  []LoginDef
	nops   int
	// Unspecified is set when the history left the domain the properties
	// speak about (e.g. two open sessions with one pid); nothing after that
	// is judged.
	Unspecified string
}

func NewSpec(defs []SessDef, ldefs []LoginDef) *Spec {
	s := &Spec{defs: defs, ldefs: ldefs}
	s.sess = make([]specSess, len(defs))
	for i := range s.sess {
		s.sess[i].login = -1
		pid, err := strconv.Atoi(defs[i].PID)
		s.sess[i].pid, s.sess[i].pidOK = pid, err == nil
	}
	s.logins = make([]specLogin, len(ldefs))
	for i := range s.logins {
		s.logins[i].sess = -1
	}
	return s
}

func tracked(id string) bool { return id != "" && id != "unset" }

// sessionsByID: two scripts may share an ID only if it is untracked.
func (s *Spec) firstDisp(si int, idxs []int) int {
	for k, i := range idxs {
		if s.defs[si].Events[i] == auparse.AUDIT_CRED_DISP {
			return k
		}
	}
	return -1
}

// Apply advances the model by op and returns what must be emitted (in order)
// followed by what may be emitted (in order, any subsequence).
func (s *Spec) Apply(op Op) (must, may []Emit) {
	n := s.nops
	s.nops++
	switch op.K {
	case "L":
		l := &s.logins[op.I]
		l.status, l.created = lParked, n
		pid := s.ldefs[op.I].PID
		var cand []int
		for si := range s.sess {
			ss := &s.sess[si]
			if ss.pidOK && ss.pid == pid && (ss.status == sUnbound || ss.status == sBound) {
				cand = append(cand, si)
			}
		}
		for li := range s.logins {
			if li != op.I && s.logins[li].status == lParked && s.ldefs[li].PID == pid {
				if len(cand) > 0 {
					s.Unspecified = "a login for a pid that has both a waiting login and an open session"
					continue
				}
				// a second login for a pid whose first login is still waiting (a re-sent line, or the pid reused
				// before any audit record was seen): one login can wait per pid, and it is the newer one, with
				// the newer one's age
				s.logins[li].status = lDiscarded
			}
		}
		if len(cand) > 1 {
			s.Unspecified = "login matches several open sessions"
			return nil, nil
		}
		if len(cand) == 1 {
			si := cand[0]
			ss := &s.sess[si]
			if ss.status == sBound {
				s.Unspecified = "second login for a session that is already correlated and not ended"
				return nil, nil
			}
			l.status, l.sess = lBound, si
			ss.login = op.I
			ss.status = sBound
			d := s.firstDisp(si, ss.held)
			for k, i := range ss.held {
				if d < 0 || k <= d {
					must = append(must, Emit{si, i, op.I})
				} else {
					may = append(may, Emit{si, i, op.I})
				}
			}
			if d >= 0 {
				ss.status = sEnded
			}
			ss.held = nil
		}
	case "A":
		def := s.defs[op.I]
		ss := &s.sess[op.I]
		typ := def.Events[op.J]
		ss.pos = op.J + 1
		if !tracked(def.ID) {
			return nil, nil
		}
		switch ss.status {
		case sUnopened, sDiscarded:
			if typ != auparse.AUDIT_LOGIN {
				return nil, nil
			}
			if ss.status == sDiscarded {
				s.Unspecified = "second LOGIN record for a discarded session"
				return nil, nil
			}
			if !ss.pidOK {
				// the correlator must fail (C15); nothing may be emitted
				return nil, nil
			}
			ss.created = n
			ss.status = sUnbound
			ss.held = []int{op.J}
			for li := range s.logins {
				if s.logins[li].status == lParked && s.ldefs[li].PID == ss.pid {
					s.logins[li].status, s.logins[li].sess = lBound, op.I
					ss.login, ss.status, ss.held = li, sBound, nil
					must = append(must, Emit{op.I, op.J, li})
					break
				}
			}
		case sUnbound:
			ss.held = append(ss.held, op.J)
		case sBound:
			must = append(must, Emit{op.I, op.J, ss.login})
			if typ == auparse.AUDIT_CRED_DISP {
				ss.status = sEnded
			}
		case sEnded:
			may = append(may, Emit{op.I, op.J, ss.login})
		}
	case "X":
		// an extra event of an arbitrary record type (never LOGIN or CRED_DISP): like any event
		def := s.defs[op.I]
		ss := &s.sess[op.I]
		if !tracked(def.ID) {
			return nil, nil
		}
		switch ss.status {
		case sBound:
			must = append(must, Emit{op.I, -1, ss.login})
		case sEnded:
			may = append(may, Emit{op.I, -1, ss.login})
		}
	case "CU", "CR", "C":
		if op.K != "CR" {
			for si := range s.sess {
				if s.sess[si].status == sUnbound && s.sess[si].created < op.Cut {
					s.sess[si].status = sDiscarded
					s.sess[si].held = nil
				}
			}
		}
		if op.K != "CU" {
			for li := range s.logins {
				if s.logins[li].status == lParked && s.logins[li].created < op.Cut {
					s.logins[li].status = lDiscarded
				}
			}
		}
	}
	return must, may
}

// Cuts returns the cut-off choices with distinct effects in this state:
// 0 (older than everything: a no-op) and j+1 for every waiting half created
// at op j (discards exactly the halves created at or before j).
func (s *Spec) Cuts() []int {
	set := map[int]bool{0: true}
	oldest := -1
	for _, ss := range s.sess {
		if ss.status == sUnbound {
			set[ss.created+1] = true
			if oldest < 0 || ss.created < oldest {
				oldest = ss.created
			}
		}
	}
	for _, l := range s.logins {
		if l.status == lParked {
			set[l.created+1] = true
			if oldest < 0 || l.created < oldest {
				oldest = l.created
			}
		}
	}
	// the latest cut-off that still spares every waiting half (it is older than everything that has ended or been
	// correlated since, younger than nothing that waits): for the model the same as no cut-off at all, for an
	// implementation only if no waiting half carries an age that is not its own
	if oldest > 0 {
		set[oldest] = true
	}
	var out []int
	for c := range set {
		out = append(out, c)
	}
	sort.Ints(out)
	return out
}

// Key renders the model state canonically (creation indices as ranks).
func (s *Spec) Key() string {
	var live []int
	for _, ss := range s.sess {
		if ss.status == sUnbound {
			live = append(live, ss.created)
		}
	}
	for _, l := range s.logins {
		if l.status == lParked {
			live = append(live, l.created)
		}
	}
	sort.Ints(live)
	rank := func(c int) int { return sort.SearchInts(live, c) }
	var b strings.Builder
	for i, ss := range s.sess {
		fmt.Fprintf(&b, "s%d:%d/%d/%d/%v", i, ss.status, ss.pos, ss.login, ss.held)
		if ss.status == sUnbound {
			fmt.Fprintf(&b, "@%d", rank(ss.created))
		}
		b.WriteString(";")
	}
	for i, l := range s.logins {
		fmt.Fprintf(&b, "l%d:%d/%d", i, l.status, l.sess)
		if l.status == lParked {
			fmt.Fprintf(&b, "@%d", rank(l.created))
		}
		b.WriteString(";")
	}
	if s.Unspecified != "" {
		b.WriteString("UNSPEC")
	}
	return b.String()
}
