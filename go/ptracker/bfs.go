package ptracker

import (
	"crypto/sha256"
	"fmt"
	"runtime"
	"strings"
	"sync"
	"sync/atomic"

	"github.com/elastic/go-libaudit/v2/auparse"

	"github.com/metal-toolbox/audito-maldito/internal/verif/mc"
)

// Config is one bounded alphabet plus the oracles to evaluate on it.
type Config struct {
	Name    string
	Sess    []SessDef
	Logins  []LoginDef
	CutMode int // 0 no cleanup; 1 no-op cut only; 2 every distinct cut ("C"); 3 also "CU" and "CR" alone
	Gate    func(sp *Spec, op Op) bool

	OSeq    bool // emitted delta == must ++ subsequence(may), with the model's identity (C02, C09, C16)
	OIdent  bool // C01: identity of the login whose pid opened the session
	ONoLeak bool // C04: nothing for sessions without LOGIN record + known login
	OIntact bool // C14: stored login never altered, all events of a session same identity

	// FanOut, if set, is called in every reached state with a function that
	// tries one extra op from that state (checked, successor not enqueued).
	MaxStates int
	// FanOutTypes: record types tried as one extra event from every reached state.
	FanOutTypes []int
}

type step = Op

// Result of a search.
type Result struct {
	States, Transitions, Replays int
	MaxDepth                     int
	NonTrivial                   int // states with >=2 sessions open at once or reached by a flush of held events
	Complete                     bool
	Samples                      []string
	PermChoices                  int // transitions that took a non-identity Iterate order
	Unspecified                  int
	FanOut                       int // one-step fan-out transitions (C04: every record type)
}

type searcher struct {
	cfg  *Config
	run  *mc.Run
	res  Result
	seen map[string]bool
	nt   map[string]bool
}

func histString(h []step) string {
	var parts []string
	for _, o := range h {
		s := o.String()
		if len(o.Perm) > 0 {
			s += fmt.Sprintf("%v", o.Perm)
		}
		parts = append(parts, s)
	}
	return strings.Join(parts, " ")
}

// replay builds a fresh world+model and applies h.
func (s *searcher) replay(h []step) (*World, *Spec) {
	w := NewWorld(s.cfg.Sess, s.cfg.Logins)
	sp := NewSpec(s.cfg.Sess, s.cfg.Logins)
	for _, o := range h {
		setChooser(w, &chooser{pre: o.Perm})
		_ = w.Apply(o)
		setChooser(w, nil)
		sp.Apply(o)
	}
	return w, sp
}

func (s *searcher) enabled(sp *Spec) []Op {
	var ops []Op
	for i, l := range sp.logins {
		if l.status == lAbsent {
			ops = append(ops, Op{K: "L", I: i})
		}
	}
	for i, ss := range sp.sess {
		if ss.pos < len(s.cfg.Sess[i].Events) {
			ops = append(ops, Op{K: "A", I: i, J: ss.pos})
		}
	}
	switch s.cfg.CutMode {
	case 1:
		ops = append(ops, Op{K: "C", Cut: 0})
	case 2, 3:
		for _, c := range sp.Cuts() {
			ops = append(ops, Op{K: "C", Cut: c})
			if s.cfg.CutMode == 3 && c > 0 {
				ops = append(ops, Op{K: "CU", Cut: c}, Op{K: "CR", Cut: c})
			}
		}
	}
	if s.cfg.Gate != nil {
		var f []Op
		for _, o := range ops {
			if s.cfg.Gate(sp, o) {
				f = append(f, o)
			}
		}
		ops = f
	}
	return ops
}

// hashKey shortens a state key to 128 bits (the full keys of millions of states do not fit in memory).
func hashKey(k string) string {
	h := sha256.Sum256([]byte(k))
	return string(h[:16])
}

func emitLabel(m Emit) string {
	if m.Idx < 0 {
		return xLabel(m.Sess)
	}
	return evLabel(m.Sess, m.Idx)
}

func sessIndexByID(defs []SessDef, id string) int {
	for i, d := range defs {
		if d.ID == id {
			return i
		}
	}
	return -1
}

// judge evaluates the oracles on one transition. Returns a violation class
// ("" = fine) and a message.
func (s *searcher) judge(w *World, sp *Spec, op Op, before int, must, may []Emit, err error) (string, string) {
	cfg := s.cfg
	delta := w.Rec.From(before)
	if len(w.Rec.Bad) > 0 {
		return "writer:bad-payload", fmt.Sprintf("a Write call did not carry exactly one JSON event line: %q", w.Rec.Bad[0])
	}
	describe := func() string {
		var got []string
		for _, e := range delta {
			got = append(got, fmt.Sprintf("%s/%s", e.Sess, e.Label))
		}
		return fmt.Sprintf("emitted by this step: %v; model must=%v may=%v; err=%v", got, must, may, err)
	}
	// expected error: LOGIN record with an unparsable pid
	wantErr := false
	if op.K == "A" {
		def := cfg.Sess[op.I]
		if tracked(def.ID) && def.Events[op.J] == auparse.AUDIT_LOGIN && !sp.sess[op.I].pidOK && sp.sess[op.I].status == sUnopened {
			wantErr = true
		}
	}
	if cfg.OSeq {
		if wantErr != (err != nil) {
			return "seq:error", fmt.Sprintf("returned error %v, expected error: %v", err, wantErr)
		}
		k := 0
		for _, m := range must {
			if k >= len(delta) {
				return "seq:lost:" + op.K, "an event the property requires was not emitted; " + describe()
			}
			e := delta[k]
			if e.Sess != cfg.Sess[m.Sess].ID || e.Label != emitLabel(m) {
				return "seq:wrong-event:" + op.K, "wrong event or order; " + describe()
			}
			if e.Identity != w.Ident(m.Login) {
				return "seq:identity:" + op.K, fmt.Sprintf("event %s/%s carries %s, want login %d; %s", e.Sess, e.Label, e.Identity, m.Login, describe())
			}
			k++
		}
		mi := 0
		for ; k < len(delta); k++ {
			e := delta[k]
			ok := false
			for mi < len(may) {
				m := may[mi]
				mi++
				if e.Sess == cfg.Sess[m.Sess].ID && e.Label == emitLabel(m) {
					if e.Identity != w.Ident(m.Login) {
						return "seq:identity-late:" + op.K, fmt.Sprintf("late event %s/%s carries %s, want login %d", e.Sess, e.Label, e.Identity, m.Login)
					}
					ok = true
					break
				}
			}
			if !ok {
				return "seq:extra:" + op.K, "an event was emitted that the property forbids here (duplicate, premature or uncorrelated); " + describe()
			}
		}
	}
	for _, e := range delta {
		if e.Type != "UserAction" {
			return "type", "emitted event has type " + e.Type
		}
		si := sessIndexByID(cfg.Sess, e.Sess)
		if cfg.OIdent || cfg.ONoLeak {
			if si < 0 || !tracked(e.Sess) {
				return "leak:unknown-session", fmt.Sprintf("event emitted with auditId %q which is no tracked session", e.Sess)
			}
			def := cfg.Sess[si]
			// the LOGIN record of the session must have been processed
			opened := false
			for j := 0; j < sp.sess[si].pos && j < len(def.Events); j++ {
				if def.Events[j] == auparse.AUDIT_LOGIN {
					opened = true
				}
			}
			if !opened {
				return "leak:no-login-record", fmt.Sprintf("event %s/%s emitted although the session's LOGIN record was never processed", e.Sess, e.Label)
			}
			// identity must be that of the login whose pid equals the LOGIN record's pid
			want := -1
			for li, ld := range cfg.Logins {
				if sp.sess[si].pidOK && ld.PID == sp.sess[si].pid && sp.logins[li].status != lAbsent {
					if sp.sess[si].login == li || want < 0 {
						want = li
					}
				}
			}
			if want < 0 {
				return "leak:no-login", fmt.Sprintf("event %s/%s emitted although no login with pid %s has arrived", e.Sess, e.Label, def.PID)
			}
			if e.Identity != w.Ident(want) {
				return "identity", fmt.Sprintf("event %s/%s carries identity %s; the login with pid %s is %s", e.Sess, e.Label, e.Identity, def.PID, w.Ident(want))
			}
		}
	}
	if cfg.OIntact {
		for li := range cfg.Logins {
			if !w.LoginUnchanged(li) {
				return "intact:login-altered", fmt.Sprintf("the stored event of login %d changed while emitting", li)
			}
		}
	}
	return "", ""
}

// judgeLeakOnly is the part of the oracle that also holds where the model leaves the step's effect open (a login
// that matches several sessions, a second login for a correlated session): every emitted event belongs to a tracked
// session whose LOGIN record was processed and carries the identity of an arrived login whose pid is that session's.
func (s *searcher) judgeLeakOnly(w *World, sp *Spec, before int) (string, string) {
	cfg := s.cfg
	for _, e := range w.Rec.From(before) {
		si := sessIndexByID(cfg.Sess, e.Sess)
		if si < 0 || !tracked(e.Sess) {
			return "leak:unknown-session", fmt.Sprintf("event emitted with auditId %q which is no tracked session", e.Sess)
		}
		def := cfg.Sess[si]
		opened := false
		for j := 0; j < sp.sess[si].pos && j < len(def.Events); j++ {
			if def.Events[j] == auparse.AUDIT_LOGIN {
				opened = true
			}
		}
		if !opened {
			return "leak:no-login-record", fmt.Sprintf("event %s/%s emitted although the session's LOGIN record was never processed", e.Sess, e.Label)
		}
		any, ok := false, false
		for li, ld := range cfg.Logins {
			if sp.sess[si].pidOK && ld.PID == sp.sess[si].pid && sp.logins[li].status != lAbsent {
				any = true
				if e.Identity == w.Ident(li) {
					ok = true
				}
			}
		}
		if !any {
			return "leak:no-login", fmt.Sprintf("event %s/%s emitted although no login with pid %s has arrived", e.Sess, e.Label, def.PID)
		}
		if !ok {
			return "identity", fmt.Sprintf("event %s/%s carries identity %s, which is no arrived login with pid %s", e.Sess, e.Label, e.Identity, def.PID)
		}
	}
	return "", ""
}

// safeApply runs one operation and converts a panic (incl. the lock-timeout
// panic of the sync shim: a self-deadlock) into a string.
func safeApply(w *World, op Op) (err error, pan string) {
	defer func() {
		if r := recover(); r != nil {
			pan = fmt.Sprint(r)
		}
	}()
	return w.Apply(op), ""
}

// succ is one explored transition.
type succ struct {
	h2      []step
	key     string
	class   string
	msg     string
	nontriv bool
	perm    bool
	unspec  bool
	fan     bool // one-step fan-out: judged, not enqueued
}

// expand explores every transition out of the state reached by h.
func (s *searcher) expand(h []step) (out []succ, unspecified bool, replays int) {
	cfg := s.cfg
	w0, sp := s.replay(h)
	w0.Close()
	replays++
	if sp.Unspecified != "" {
		return nil, true, replays
	}
	for _, op := range s.enabled(sp) {
		var rec func(pre []int)
		rec = func(pre []int) {
			w, sp := s.replay(h)
			replays++
			before := w.Rec.Len()
			ch := &chooser{pre: pre}
			setChooser(w, ch)
			op2 := op
			err, pan := safeApply(w, op2)
			setChooser(w, nil)
			must, may := sp.Apply(op2)
			op2.Perm = append([]int{}, ch.taken...)
			sc := succ{h2: append(append([]step{}, h...), op2)}
			for _, c := range ch.taken {
				if c != 0 {
					sc.perm = true
				}
			}
			if pan != "" {
				sc.class, sc.msg = "panic-or-deadlock:"+op2.K, "the operation did not complete: "+pan
			} else if sp.Unspecified != "" {
				sc.unspec = true
				// what the step does to the sessions concerned is left open; what it must NOT do is not: nothing
				// is emitted for a session no arrived login's pid matches, or with another identity than such a login's
				if cfg.OIdent || cfg.ONoLeak {
					sc.class, sc.msg = s.judgeLeakOnly(w, sp, before)
				}
			} else {
				sc.class, sc.msg = s.judge(w, sp, op2, before, must, may, err)
			}
			if sc.class == "" {
				sc.key = hashKey(w.Key() + "#" + sp.Key())
				open := 0
				for _, ss := range sp.sess {
					if ss.status == sUnbound || ss.status == sBound {
						open++
					}
				}
				sc.nontriv = open >= 2 || (op2.K == "L" && len(must) > 0)
			}
			_ = cfg
			w.Close()
			out = append(out, sc)
			for i := len(pre); i < len(ch.sizes); i++ {
				for alt := 1; alt < ch.sizes[i]; alt++ {
					rec(append(append([]int{}, ch.taken[:i]...), alt))
				}
			}
		}
		rec(nil)
	}
	// one-step fan-out (checked, successors not enqueued): one event of every
	// record type for every session of the alphabet
	for _, typ := range cfg.FanOutTypes {
		for si := range cfg.Sess {
			w, sp := s.replay(h)
			replays++
			before := w.Rec.Len()
			op := Op{K: "X", I: si, Typ: typ}
			setChooser(w, &chooser{})
			err := w.Apply(op)
			setChooser(w, nil)
			must, may := sp.Apply(op)
			sc := succ{h2: append(append([]step{}, h...), op), fan: true}
			sc.class, sc.msg = s.judge(w, sp, op, before, must, may, err)
			w.Close()
			out = append(out, sc)
		}
	}
	return out, false, replays
}

// Search explores the whole reachable graph of cfg breadth first; the nodes
// of one level are expanded by parallel workers (one fresh world per replay,
// nothing shared), results merged in a fixed order so runs are reproducible.
func Search(run *mc.Run, cfg *Config) *Result {
	s := &searcher{cfg: cfg, run: run, seen: map[string]bool{}, nt: map[string]bool{}}
	w0, sp0 := s.replay(nil)
	s.seen[hashKey(w0.Key()+"#"+sp0.Key())] = true
	w0.Close()
	frontier := [][]step{nil}
	s.res.Complete = true
	violKeys := map[string]bool{}
	panics := 0
	workers := runtime.GOMAXPROCS(0)
	for depth := 0; len(frontier) > 0; depth++ {
		s.res.MaxDepth = depth
		if cfg.MaxStates > 0 && len(s.seen) >= cfg.MaxStates || run.Expired() {
			s.res.Complete = false
			break
		}
		type res struct {
			out     []succ
			unspec  bool
			replays int
		}
		var nf [][]step
		const chunk = 4096 // nodes expanded in parallel before their successors are merged (bounds memory)
		for lo := 0; lo < len(frontier); lo += chunk {
			hi := lo + chunk
			if hi > len(frontier) {
				hi = len(frontier)
			}
			part := frontier[lo:hi]
			results := make([]res, len(part))
			var wg sync.WaitGroup
			var next int64 = -1
			for wk := 0; wk < workers; wk++ {
				wg.Add(1)
				go func() {
					defer wg.Done()
					for {
						i := int(atomic.AddInt64(&next, 1))
						if i >= len(part) {
							return
						}
						o, u, r := s.expand(part[i])
						results[i] = res{o, u, r}
					}
				}()
			}
			wg.Wait()
			for _, r := range results {
				s.res.Replays += r.replays
				if r.unspec {
					s.res.Unspecified++
				}
				for _, sc := range r.out {
					s.res.Transitions++
					if sc.perm {
						s.res.PermChoices++
					}
					if sc.unspec && sc.class == "" {
						continue
					}
					if strings.HasPrefix(sc.class, "panic-or-deadlock") {
						panics++
					}
					if sc.class != "" {
						key := cfg.Name + ":" + sc.class
						if !violKeys[key] {
							violKeys[key] = true
							run.Violation(key, map[string]any{"config": cfg.Name, "history": sc.h2},
								fmt.Sprintf("history: %s\n%s", histString(sc.h2), sc.msg))
						}
						continue
					}
					if sc.fan {
						s.res.FanOut++
						continue
					}
					if !s.seen[sc.key] {
						s.seen[sc.key] = true
						nf = append(nf, sc.h2)
						if sc.nontriv {
							s.res.NonTrivial++
						}
						if len(s.res.Samples) < 3 && len(sc.h2) >= 6 {
							s.res.Samples = append(s.res.Samples, histString(sc.h2))
						}
					}
				}
			}
			if cfg.MaxStates > 0 && len(s.seen) >= cfg.MaxStates || run.Expired() || panics >= 3 {
				break
			}
		}
		frontier = nf
		if panics >= 3 {
			// every such transition costs a lock timeout: stop, the violation is reported
			s.res.Complete = false
			break
		}
	}
	s.res.States = len(s.seen)
	return &s.res
}

// ReplayHistory re-executes a recorded history and judges every step.
func ReplayHistory(run *mc.Run, cfg *Config, h []step) {
	s := &searcher{cfg: cfg, run: run, seen: map[string]bool{}}
	w := NewWorld(cfg.Sess, cfg.Logins)
	sp := NewSpec(cfg.Sess, cfg.Logins)
	for i, o := range h {
		before := w.Rec.Len()
		setChooser(w, &chooser{pre: o.Perm})
		err := w.Apply(o)
		setChooser(w, nil)
		must, may := sp.Apply(o)
		var class, msg string
		if sp.Unspecified == "" {
			class, msg = s.judge(w, sp, o, before, must, may, err)
		} else if cfg.OIdent || cfg.ONoLeak {
			class, msg = s.judgeLeakOnly(w, sp, before)
		}
		var got []string
		for _, e := range w.Rec.From(before) {
			got = append(got, e.Sess+"/"+e.Label+" "+e.Identity)
		}
		fmt.Printf("step %d %s -> emitted %v err=%v\n", i, o, got, err)
		if class != "" {
			run.Violation(cfg.Name+":"+class, map[string]any{"config": cfg.Name, "history": h[:i+1]},
				fmt.Sprintf("history: %s\n%s", histString(h[:i+1]), msg))
			return
		}
	}
}
