package ptracker

import (
	"fmt"
	"os"
	"runtime/pprof"
	"testing"

	"github.com/metal-toolbox/audito-maldito/internal/verif/mc"
)

func TestMain(m *testing.M) {
	prop := os.Getenv("VERIF_PROP")
	if prop == "" {
		os.Exit(m.Run())
	}
	if f := os.Getenv("VERIF_CPUPROFILE"); f != "" {
		fh, _ := os.Create(f)
		_ = pprof.StartCPUProfile(fh)
		exit := osExit
		osExit = func(c int) { pprof.StopCPUProfile(); fh.Close(); exit(c) }
	}
	run := mc.Start(prop)
	switch prop {
	case "C01", "C02", "C04", "C09", "C16":
		osExit(runBFS(run))
	case "C03":
		osExit(runConc(run))
	}
	fmt.Println("unknown property", prop)
	os.Exit(2)
}

var osExit = os.Exit
