//go:debug asynctimerchan=0
package ptracker

import (
	"fmt"
	"os"
	"runtime/pprof"
	"testing"

	"github.com/metal-toolbox/audito-maldito/internal/verif/mc"
)

var exitCode = 2

func TestMain(m *testing.M) {
	if os.Getenv("VERIF_PROP") == "" {
		os.Exit(m.Run())
	}
	m.Run()
	os.Exit(exitCode)
}

func TestCheck(t *testing.T) {
	prop := os.Getenv("VERIF_PROP")
	if prop == "" {
		t.Skip()
	}
	if f := os.Getenv("VERIF_CPUPROFILE"); f != "" {
		fh, _ := os.Create(f)
		_ = pprof.StartCPUProfile(fh)
		defer func() { pprof.StopCPUProfile(); fh.Close() }()
	}
	run := mc.Start(prop)
	switch prop {
	case "C10":
		if run.Replay == "" {
			concDuplicates(run)
		}
		exitCode = runBFS(run)
	case "C01", "C02", "C04", "C09", "C16":
		exitCode = runBFS(run)
	case "C03":
		exitCode = runConc(run)
	default:
		fmt.Println("unknown property", prop)
	}
}
