package ptracker

import (
	"fmt"
	"strings"

	"github.com/elastic/go-libaudit/v2/auparse"

	"github.com/metal-toolbox/audito-maldito/internal/verif/mc"
)

var (
	tLOGIN = auparse.AUDIT_LOGIN
	tEV    = auparse.AUDIT_SYSCALL
	tEV2   = auparse.AUDIT_USER_END
	tDISP  = auparse.AUDIT_CRED_DISP
	tSTART = auparse.AUDIT_USER_START
)

func configs(prop string, thorough bool) []*Config {
	full := []auparse.AuditMessageType{tLOGIN, tEV, tDISP, tEV}
	switch prop {
	case "C01":
		c := &Config{Name: "C01-2sess", CutMode: 2, OIdent: true, OIntact: true,
			Sess: []SessDef{
				{ID: "1", PID: "101", Events: full},
				{ID: "2", PID: "102", Events: full},
				{ID: "9", PID: "109", Events: []auparse.AuditMessageType{tLOGIN, tEV}}, // cron-like: no login ever
			},
			Logins: []LoginDef{{PID: 101}, {PID: 102}, {PID: 104}}, // 104 opens no session
		}
		// sshd pids beyond 16 and 24 bits that are congruent to a small pid (pid_max can be 4194304)
		w := &Config{Name: "C01-pid-width", CutMode: 1, OIdent: true,
			Sess: []SessDef{
				{ID: "1", PID: "101", Events: []auparse.AuditMessageType{tLOGIN, tEV, tDISP}},
				{ID: "2", PID: "65637", Events: []auparse.AuditMessageType{tLOGIN, tEV, tDISP}},   // 101 + 2^16
				{ID: "3", PID: "4194405", Events: []auparse.AuditMessageType{tLOGIN, tEV, tDISP}}, // 101 + 2^22
			},
			Logins: []LoginDef{{PID: 101}, {PID: 65637}, {PID: 4194405}},
		}
		// ... and beyond 32 bits (a pid token is text: nothing says it fits an int32)
		w64 := &Config{Name: "C01-pid-width-64", CutMode: 1, OIdent: true, ONoLeak: true,
			Sess: []SessDef{
				{ID: "1", PID: "101", Events: []auparse.AuditMessageType{tLOGIN, tEV, tDISP}},
				{ID: "2", PID: "4294967397", Events: []auparse.AuditMessageType{tLOGIN, tEV, tDISP}}, // 101 + 2^32
			},
			Logins: []LoginDef{{PID: 101}, {PID: 4294967397}},
		}
		// session ids are text: two tokens with the same numeric value (7 / 07 / 007) are two sessions
		sp := &Config{Name: "C01-session-id-spellings", CutMode: 1, OIdent: true, ONoLeak: true, OSeq: true,
			Sess: []SessDef{
				{ID: "7", PID: "101", Events: []auparse.AuditMessageType{tLOGIN, tEV, tDISP}},
				{ID: "07", PID: "102", Events: []auparse.AuditMessageType{tLOGIN, tEV, tDISP}},
				{ID: "007", PID: "103", Events: []auparse.AuditMessageType{tLOGIN, tEV}}, // no login of its own
			},
			Logins: []LoginDef{{PID: 101}, {PID: 102}},
		}
		if !thorough {
			return []*Config{c, w, w64, sp}
		}
		// three sessions in flight: cleanup only with the no-op cut-off (the 2-session alphabet walks every cut-off)
		c3 := &Config{Name: "C01-3sess", CutMode: 1, OIdent: true, OIntact: true, MaxStates: 4000000,
			Sess: []SessDef{
				{ID: "1", PID: "101", Events: full},
				{ID: "2", PID: "102", Events: full},
				{ID: "3", PID: "103", Events: []auparse.AuditMessageType{tLOGIN, tEV, tDISP}},
				{ID: "9", PID: "109", Events: []auparse.AuditMessageType{tLOGIN, tEV}},
			},
			Logins: []LoginDef{{PID: 101}, {PID: 102}, {PID: 103}, {PID: 104}},
		}
		return []*Config{c, w, w64, sp, c3}
	case "C02":
		ev5 := []auparse.AuditMessageType{tLOGIN, tEV, tEV2, tDISP, tEV}
		c := &Config{Name: "C02-2sess", CutMode: 1, OSeq: true, OIntact: true,
			Sess: []SessDef{
				{ID: "1", PID: "101", Events: ev5},
				{ID: "2", PID: "102", Events: ev5},
			},
			Logins: []LoginDef{{PID: 101}, {PID: 102}},
		}
		// the same oracle on the pid-reuse alphabet: a session that ended must not swallow the
		// login of the next session of that pid (none of whose events would then be emitted)
		r := configs("C09", false)[0]
		r.Name = "C02-under-pid-reuse"
		// a record of the session arrives before the session's LOGIN record (mid-stream start, late LOGIN record):
		// it is ignored, and everything from the LOGIN record on is emitted as usual
		st := &Config{Name: "C02-stray-record-before-the-login-record", CutMode: 1, OSeq: true, OIntact: true, ONoLeak: true, OIdent: true,
			Sess: []SessDef{
				{ID: "1", PID: "101", Events: []auparse.AuditMessageType{tEV, tLOGIN, tEV2, tDISP}},
				{ID: "2", PID: "102", Events: []auparse.AuditMessageType{tEV2, tLOGIN, tEV, tDISP}},
			},
			Logins: []LoginDef{{PID: 101}, {PID: 102}},
		}
		// record types a renderer might treat specially (terminal input from pam_tty_audit, AVC, anomaly records):
		// they are events of the session like any other
		tt := &Config{Name: "C02-special-record-types", CutMode: 1, OSeq: true, OIntact: true,
			Sess: []SessDef{
				{ID: "1", PID: "101", Events: []auparse.AuditMessageType{tLOGIN, auparse.AUDIT_TTY, auparse.AUDIT_USER_TTY, auparse.AUDIT_AVC, tDISP}},
				{ID: "2", PID: "102", Events: []auparse.AuditMessageType{tLOGIN, auparse.AUDIT_ANOM_ABEND, tDISP}},
			},
			Logins: []LoginDef{{PID: 101}, {PID: 102}},
		}
		dup := configs("C16", false)[1]
		dup.Name = "C02-second-login-for-a-waiting-pid"
		evd := configs("C16", false)[2]
		evd.Name = "C02-pid-reused-after-a-discarded-session"
		if !thorough {
			return []*Config{c, r, st, tt, dup, evd}
		}
		c3 := &Config{Name: "C02-3sess", CutMode: 1, OSeq: true, OIntact: true,
			Sess: []SessDef{
				{ID: "1", PID: "101", Events: ev5},
				{ID: "2", PID: "102", Events: full},
				{ID: "3", PID: "103", Events: full},
			},
			Logins: []LoginDef{{PID: 101}, {PID: 102}, {PID: 103}},
		}
		return []*Config{c, r, st, tt, dup, evd, c3}
	case "C10":
		// C10(a): the production JSON writer under every history of C02's alphabet:
		// one Write per event, whole event per Write, nothing written twice.
		cs := configs("C02", thorough)
		for _, c := range cs {
			c.Name = "C10-writer" + c.Name[3:]
		}
		return cs
	case "C04":
		c := &Config{Name: "C04-mixed", CutMode: 1, ONoLeak: true, OSeq: true,
			Sess: []SessDef{
				{ID: "1", PID: "101", Events: full},
				{ID: "2", PID: "101", Events: []auparse.AuditMessageType{tSTART, tEV, tDISP}}, // never opened by a LOGIN record; same pid as login 0
				{ID: "3", PID: "103", Events: []auparse.AuditMessageType{tLOGIN, tEV, tDISP}}, // cron/console: no ssh login
				{ID: "", PID: "101", Events: []auparse.AuditMessageType{tLOGIN, tEV}},         // no session id
				{ID: "unset", PID: "101", Events: []auparse.AuditMessageType{tLOGIN, tEV}},    // kernel's unset session
			},
			Logins: []LoginDef{{PID: 101}, {PID: 104}},
		}
		if thorough {
			c.Sess = append(c.Sess, SessDef{ID: "4294967295", PID: "105", Events: []auparse.AuditMessageType{tLOGIN, tEV, tDISP}})
			c.Logins = append(c.Logins, LoginDef{PID: 105})
		}
		c.FanOutTypes = recordTypes(false)
		var extra []*Config
		if thorough {
			// every record type go-libaudit knows, from every state of the base alphabet (the larger
			// alphabet above keeps the 15-type subset: states x types x sessions is the cost)
			all := *c
			all.Name = "C04-all-record-types"
			all.Sess = append([]SessDef{}, c.Sess[:5]...)
			all.Logins = append([]LoginDef{}, c.Logins[:2]...)
			all.FanOutTypes = recordTypes(true)
			extra = append(extra, &all)
		}
		// "whatever is emitted for a session after its credential-disposal record still carries only
		// that session's own identity": only observable when another login with the same pid exists,
		// so C04 also walks the pid-reuse alphabet of C09 with its identity oracle.
		r := configs("C09", thorough)[0]
		r.Name, r.OSeq, r.OIntact, r.ONoLeak = "C04-late-events-under-pid-reuse", false, false, true
		// a session whose login never comes while a login with a pid congruent to its pid modulo 2^32 does
		w64 := &Config{Name: "C04-pid-width-64", CutMode: 1, ONoLeak: true, OSeq: true,
			Sess: []SessDef{
				{ID: "1", PID: "101", Events: []auparse.AuditMessageType{tLOGIN, tEV, tDISP}},
				{ID: "2", PID: "4294967397", Events: []auparse.AuditMessageType{tLOGIN, tEV, tDISP}},
			},
			Logins: []LoginDef{{PID: 4294967397}, {PID: 101}},
		}
		// a login for a pid whose session is open and already has its login (a re-sent line, a second authentication
		// logged by the same sshd process) while a session of ANOTHER pid is held without login: whatever the second
		// login does to the first session, the held one stays without identity
		again := &Config{Name: "C04-second-login-for-an-open-session", CutMode: 1, ONoLeak: true, OSeq: true, OIdent: true,
			Sess: []SessDef{
				{ID: "1", PID: "101", Events: []auparse.AuditMessageType{tLOGIN, tEV, tDISP}},
				{ID: "2", PID: "103", Events: []auparse.AuditMessageType{tLOGIN, tEV, tDISP}}, // no ssh login of its own
				{ID: "3", PID: "99", Events: []auparse.AuditMessageType{tLOGIN, tEV}},         // no ssh login of its own
			},
			Logins: []LoginDef{{PID: 101}, {PID: 101}},
		}
		return append([]*Config{c, r, w64, again}, extra...)
	case "C09":
		c := &Config{Name: "C09-reuse", CutMode: 1, OSeq: true, OIntact: true,
			Sess: []SessDef{
				// (credentials acquired and refreshed but never individually disposed of - an abandoned su / sudo -i -
				// before sshd's own credential disposal; two stragglers after the end)
				{ID: "1", PID: "101", Events: []auparse.AuditMessageType{tLOGIN, auparse.AUDIT_CRED_ACQ, auparse.AUDIT_CRED_REFR, tDISP, tEV, tEV2}},
				{ID: "2", PID: "101", Events: []auparse.AuditMessageType{tLOGIN, tEV, tDISP}},
				{ID: "3", PID: "102", Events: []auparse.AuditMessageType{tLOGIN, tEV}},
			},
			Logins: []LoginDef{{PID: 101}, {PID: 101}, {PID: 102}},
			Gate: func(sp *Spec, op Op) bool {
				// the pid is reused only after the first session has ended
				if (op.K == "A" && op.I == 1) || (op.K == "L" && op.I == 1) {
					return sp.sess[0].status == sEnded
				}
				return true
			},
		}
		if thorough {
			// third generation of the same pid
			c.Sess = append(c.Sess, SessDef{ID: "4", PID: "101", Events: []auparse.AuditMessageType{tLOGIN, tEV, tDISP}})
			c.Logins = append(c.Logins, LoginDef{PID: 101})
			g := c.Gate
			c.Gate = func(sp *Spec, op Op) bool {
				if (op.K == "A" && op.I == 3) || (op.K == "L" && op.I == 3) {
					return sp.sess[1].status == sEnded
				}
				return g(sp, op)
			}
		}
		// the next connection with that pid logs in exactly as the earlier one did (same account, key, address and
		// port - a script reconnecting): its login is a new login all the same
		same := *c
		same.Name = "C09-reuse-identical-login"
		same.Logins = append([]LoginDef{}, c.Logins...)
		same.Logins[1] = LoginDef{PID: 101, SameAs: 1}
		if thorough {
			same.Logins[3] = LoginDef{PID: 101, SameAs: 1}
		}
		// ... and with cleanup at every distinct cut-off between the two generations: the new session's age is its
		// own (nothing it inherits from the ended one makes it look stale), so a cut-off before its LOGIN record
		// leaves it alone
		cl := &Config{Name: "C09-reuse-with-cleanup", CutMode: 2, OSeq: true, OIdent: true,
			Sess: []SessDef{
				{ID: "1", PID: "101", Events: []auparse.AuditMessageType{tLOGIN, tEV, tDISP}},
				{ID: "2", PID: "101", Events: []auparse.AuditMessageType{tLOGIN, tEV, tDISP}},
			},
			Logins: []LoginDef{{PID: 101}, {PID: 101}},
			Gate: func(sp *Spec, op Op) bool {
				if (op.K == "A" && op.I == 1) || (op.K == "L" && op.I == 1) {
					return sp.sess[0].status == sEnded
				}
				return true
			},
		}
		return []*Config{c, &same, cl}
	case "C16":
		ev3 := []auparse.AuditMessageType{tLOGIN, tEV, tDISP}
		c := &Config{Name: "C16-cleanup", CutMode: 3, OSeq: true,
			Sess: []SessDef{
				{ID: "1", PID: "101", Events: ev3},
				{ID: "2", PID: "102", Events: ev3},
			},
			Logins: []LoginDef{{PID: 101}, {PID: 102}},
		}
		if thorough {
			c.Sess = append(c.Sess, SessDef{ID: "3", PID: "103", Events: []auparse.AuditMessageType{tLOGIN, tEV}})
			c.Logins = append(c.Logins, LoginDef{PID: 103})
		}
		// two logins for one pid while nothing of its session has been seen (a re-sent line, a pid reused early):
		// the one that waits is the newer one, and cleanup judges it by ITS age
		w := &Config{Name: "C16-second-login-for-a-waiting-pid", CutMode: 3, OSeq: true,
			Sess: []SessDef{
				{ID: "1", PID: "101", Events: ev3},
			},
			Logins: []LoginDef{{PID: 101}, {PID: 101}, {PID: 102}, {PID: 101, SameAs: 1}}, // the last one re-delivers the first
		}
		// a session that never gets its login is discarded by cleanup; its pid is then used again by a real ssh
		// session (login line and LOGIN record in either order): the earlier, discarded session leaves nothing behind
		ev := &Config{Name: "C16-pid-reused-after-a-discarded-session", CutMode: 2, OSeq: true, OIdent: true,
			Sess: []SessDef{
				{ID: "1", PID: "101", Events: []auparse.AuditMessageType{tLOGIN, tEV}},
				{ID: "2", PID: "101", Events: ev3},
			},
			Logins: []LoginDef{{PID: 101}},
			Gate: func(sp *Spec, op Op) bool {
				if (op.K == "A" && op.I == 1) || op.K == "L" {
					return sp.sess[0].status == sDiscarded
				}
				return true
			},
		}
		// the same with record timestamps of a live stream (seconds before the wall clock, not in 2023)
		live := &Config{Name: "C16-cleanup-live-record-times", CutMode: 3, OSeq: true,
			Sess: []SessDef{
				{ID: "1", PID: "101", Events: ev3, Live: true},
				{ID: "2", PID: "102", Events: ev3, Live: true},
			},
			Logins: []LoginDef{{PID: 101}, {PID: 102}},
		}
		return []*Config{c, w, ev, live}
	}
	return nil
}

// recordTypes: every record type go-libaudit knows (thorough), or a subset
// containing every type the tracker could plausibly special-case (quick);
// LOGIN and CRED_DISP are part of the alphabet itself.
func recordTypes(all bool) []int {
	var out []int
	for n := 1000; n < 3000; n++ {
		t := auparse.AuditMessageType(n)
		if t == auparse.AUDIT_LOGIN || t == auparse.AUDIT_CRED_DISP || strings.HasPrefix(t.String(), "UNKNOWN[") {
			continue
		}
		out = append(out, n)
	}
	if all {
		return out
	}
	quick := []auparse.AuditMessageType{auparse.AUDIT_USER_LOGIN, auparse.AUDIT_USER_START, auparse.AUDIT_USER_END, auparse.AUDIT_USER_AUTH,
		auparse.AUDIT_USER_ACCT, auparse.AUDIT_CRED_ACQ, auparse.AUDIT_CRED_REFR, auparse.AUDIT_USER_LOGOUT, auparse.AUDIT_USER_CMD,
		auparse.AUDIT_SYSCALL, auparse.AUDIT_EXECVE, auparse.AUDIT_TTY, auparse.AUDIT_USER_TTY, auparse.AUDIT_USER_ERR, auparse.AUDIT_SERVICE_START, auparse.AUDIT_DAEMON_START, auparse.AUDIT_ANOM_LOGIN_FAILURES}
	out = out[:0]
	for _, t := range quick {
		out = append(out, int(t))
	}
	return out
}

func configByName(prop, name string) *Config {
	for _, th := range []bool{false, true} {
		for _, c := range configs(prop, th) {
			if c.Name == name {
				return c
			}
		}
	}
	return nil
}

// longSession: one linear history that no small alphabet reaches — a session whose n events (LOGIN ... CRED_DISP)
// are all held before its login arrives, then the login, then the pid is reused by a second session. Every step
// is judged by the same reference model (nothing lost from the hold queue however long it is; the ended session
// is released). Returns the number of operations executed.
func longSession(run *mc.Run, n int) int {
	evs := make([]auparse.AuditMessageType, n)
	evs[0] = tLOGIN
	for i := 1; i < n-1; i++ {
		evs[i] = tEV
	}
	evs[n-1] = tDISP
	cfg := &Config{Name: fmt.Sprintf("%s-long-held-session-%d", run.Prop, n), OSeq: true,
		Sess: []SessDef{
			{ID: "1", PID: "101", Events: evs},
			{ID: "2", PID: "101", Events: []auparse.AuditMessageType{tLOGIN, tEV, tDISP}},
		},
		Logins: []LoginDef{{PID: 101}, {PID: 101}},
	}
	var h []Op
	for i := 0; i < n; i++ {
		h = append(h, Op{K: "A", I: 0, J: i})
	}
	h = append(h, Op{K: "L", I: 0}, Op{K: "L", I: 1}, Op{K: "A", I: 1, J: 0}, Op{K: "A", I: 1, J: 1}, Op{K: "A", I: 1, J: 2})
	s := &searcher{cfg: cfg, run: run, seen: map[string]bool{}}
	w := NewWorld(cfg.Sess, cfg.Logins)
	defer w.Close()
	sp := NewSpec(cfg.Sess, cfg.Logins)
	for i, o := range h {
		before := w.Rec.Len()
		err, pan := safeApply(w, o)
		must, may := sp.Apply(o)
		class, msg := "", ""
		if pan != "" {
			class, msg = "panic-or-deadlock:"+o.K, pan
		} else {
			class, msg = s.judge(w, sp, o, before, must, may, err)
		}
		if class != "" {
			if len(msg) > 600 {
				msg = msg[:600] + "..."
			}
			run.Violation(fmt.Sprintf("%s:long-held-session:%s", run.Prop, class), map[string]any{"config": "long-held-session", "events_held": n, "failing_step": i, "step": o.String()},
				fmt.Sprintf("session 1: %d events (LOGIN ... CRED_DISP) all held before its login; then login 0, login 1 (same pid), session 2. Step %d %s: %s", n, i, o, msg))
			break
		}
	}
	return len(h)
}

// manySessions: a linear history with m sessions in flight at once (no small alphabet reaches that): the
// LOGIN records of all sessions, then half of the logins, one event per session, the other half of the logins,
// the rest of every session. Judged step by step by the reference model plus the identity oracle.
func manySessions(run *mc.Run, m int) int {
	cfg := &Config{Name: fmt.Sprintf("%s-many-sessions-%d", run.Prop, m), OSeq: true, OIdent: true}
	for i := 0; i < m; i++ {
		cfg.Sess = append(cfg.Sess, SessDef{ID: fmt.Sprint(1000 + i), PID: fmt.Sprint(20000 + i), Events: []auparse.AuditMessageType{tLOGIN, tEV, tEV2, tDISP}})
		cfg.Logins = append(cfg.Logins, LoginDef{PID: 20000 + i})
	}
	var h []Op
	for i := 0; i < m; i++ {
		h = append(h, Op{K: "A", I: i, J: 0})
	}
	for i := 0; i < m; i += 2 {
		h = append(h, Op{K: "L", I: i})
	}
	for i := m - 1; i >= 0; i-- {
		h = append(h, Op{K: "A", I: i, J: 1})
	}
	for i := 1; i < m; i += 2 {
		h = append(h, Op{K: "L", I: i})
	}
	for i := 0; i < m; i++ {
		h = append(h, Op{K: "A", I: i, J: 2}, Op{K: "A", I: i, J: 3})
	}
	s := &searcher{cfg: cfg, run: run, seen: map[string]bool{}}
	w := NewWorld(cfg.Sess, cfg.Logins)
	defer w.Close()
	sp := NewSpec(cfg.Sess, cfg.Logins)
	for i, o := range h {
		before := w.Rec.Len()
		err, pan := safeApply(w, o)
		must, may := sp.Apply(o)
		class, msg := "", ""
		if pan != "" {
			class, msg = "panic-or-deadlock:"+o.K, pan
		} else {
			class, msg = s.judge(w, sp, o, before, must, may, err)
		}
		if class != "" {
			if len(msg) > 600 {
				msg = msg[:600] + "..."
			}
			run.Violation(fmt.Sprintf("%s:many-sessions:%s", run.Prop, class), map[string]any{"config": "many-sessions", "sessions": m, "failing_step": i, "step": o.String()},
				fmt.Sprintf("%d sessions in flight at once; step %d %s: %s", m, i, o, msg))
			break
		}
	}
	return len(h)
}

// agedTracker: a tracker that has already served m complete sessions (login first, LOGIN record, event, end - the
// ordinary order), and only then the interesting part: a session whose LOGIN record precedes its login, another
// session opened meanwhile, then the logins. Whatever bookkeeping the tracker keeps must not drift with use.
func agedTracker(run *mc.Run, m int) int {
	cfg := &Config{Name: fmt.Sprintf("%s-aged-tracker-%d", run.Prop, m), OSeq: true, OIdent: true}
	for i := 0; i < m+2; i++ {
		cfg.Sess = append(cfg.Sess, SessDef{ID: fmt.Sprint(100000 + i), PID: fmt.Sprint(200000 + i), Events: []auparse.AuditMessageType{tLOGIN, tEV, tEV2, tDISP}})
		cfg.Logins = append(cfg.Logins, LoginDef{PID: 200000 + i})
	}
	var h []Op
	for i := 0; i < m; i++ {
		h = append(h, Op{K: "L", I: i}, Op{K: "A", I: i, J: 0}, Op{K: "A", I: i, J: 1}, Op{K: "A", I: i, J: 2}, Op{K: "A", I: i, J: 3})
	}
	a, b := m, m+1
	h = append(h, Op{K: "A", I: a, J: 0}, Op{K: "A", I: b, J: 0}, Op{K: "A", I: a, J: 1}, Op{K: "L", I: a}, Op{K: "A", I: a, J: 2}, Op{K: "L", I: b},
		Op{K: "A", I: b, J: 1}, Op{K: "A", I: a, J: 3}, Op{K: "A", I: b, J: 2}, Op{K: "A", I: b, J: 3})
	s := &searcher{cfg: cfg, run: run, seen: map[string]bool{}}
	w := NewWorld(cfg.Sess, cfg.Logins)
	defer w.Close()
	sp := NewSpec(cfg.Sess, cfg.Logins)
	for i, o := range h {
		before := w.Rec.Len()
		err, pan := safeApply(w, o)
		must, may := sp.Apply(o)
		class, msg := "", ""
		if pan != "" {
			class, msg = "panic-or-deadlock:"+o.K, pan
		} else {
			class, msg = s.judge(w, sp, o, before, must, may, err)
		}
		if class != "" {
			if len(msg) > 600 {
				msg = msg[:600] + "..."
			}
			run.Violation(fmt.Sprintf("%s:aged-tracker:%s", run.Prop, class), map[string]any{"config": "aged-tracker", "earlier_sessions": m, "failing_step": i, "step": o.String()},
				fmt.Sprintf("a tracker that has served %d complete sessions before; step %d %s: %s", m, i, o, msg))
			break
		}
	}
	return len(h)
}

// linear judges one long history step by step with the reference model and the oracles of cfg.
func linear(run *mc.Run, cfg *Config, h []Op, label, what string) int {
	s := &searcher{cfg: cfg, run: run, seen: map[string]bool{}}
	w := NewWorld(cfg.Sess, cfg.Logins)
	defer w.Close()
	sp := NewSpec(cfg.Sess, cfg.Logins)
	for i, o := range h {
		before := w.Rec.Len()
		err, pan := safeApply(w, o)
		must, may := sp.Apply(o)
		class, msg := "", ""
		if pan != "" {
			class, msg = "panic-or-deadlock:"+o.K, pan
		} else {
			class, msg = s.judge(w, sp, o, before, must, may, err)
		}
		if class != "" {
			if len(msg) > 600 {
				msg = msg[:600] + "..."
			}
			run.Violation(fmt.Sprintf("%s:%s:%s", run.Prop, label, class), map[string]any{"config": label, "failing_step": i, "step": o.String()},
				fmt.Sprintf("%s; step %d %s: %s", what, i, o, msg))
			break
		}
	}
	return len(h)
}

// manyWaitingLogins: a login waits for its LOGIN record while m other logins (distinct pids, no sessions yet: a
// burst of connections, a scan) arrive after it; then its LOGIN record comes - well inside the staleness window,
// no cleanup in between - and correlates; so does the session of the last of the m.
func manyWaitingLogins(run *mc.Run, m int) int {
	ev3 := []auparse.AuditMessageType{tLOGIN, tEV, tDISP}
	cfg := &Config{Name: fmt.Sprintf("%s-many-waiting-logins-%d", run.Prop, m), OSeq: true, OIdent: true,
		Sess: []SessDef{{ID: "1", PID: "101", Events: ev3}, {ID: "2", PID: fmt.Sprint(300000 + m), Events: ev3}}}
	cfg.Logins = append(cfg.Logins, LoginDef{PID: 101})
	h := []Op{{K: "L", I: 0}}
	for i := 1; i <= m; i++ {
		cfg.Logins = append(cfg.Logins, LoginDef{PID: 300000 + i})
		h = append(h, Op{K: "L", I: i})
	}
	h = append(h, Op{K: "A", I: 0, J: 0}, Op{K: "A", I: 0, J: 1}, Op{K: "A", I: 1, J: 0}, Op{K: "A", I: 1, J: 1}, Op{K: "A", I: 0, J: 2}, Op{K: "A", I: 1, J: 2})
	return linear(run, cfg, h, "many-waiting-logins", fmt.Sprintf("%d logins waiting at once, none older than this run", m+1))
}

// heldTogether: eight sessions are held at once, of very different sizes (1 ... 70 records), created in one order
// and filled in an interleaved one, two of them cron-like (no login ever); then the logins arrive, oldest session
// first in one run, youngest first in the other. Every session's records come out under its own login, in order,
// and nothing of the cron-like ones.
func heldTogether(run *mc.Run, youngestFirst bool) int {
	sizes := []int{2, 40, 3, 70, 17, 16, 15, 33}
	cfg := &Config{Name: fmt.Sprintf("%s-held-together-%v", run.Prop, youngestFirst), OSeq: true, OIdent: true, ONoLeak: true}
	for i, n := range sizes {
		evs := []auparse.AuditMessageType{tLOGIN}
		for k := 1; k < n; k++ {
			evs = append(evs, tEV)
		}
		cfg.Sess = append(cfg.Sess, SessDef{ID: fmt.Sprint(500 + i), PID: fmt.Sprint(600 + i), Events: evs})
		if i != 2 && i != 5 { // sessions 2 and 5 never get a login
			cfg.Logins = append(cfg.Logins, LoginDef{PID: 600 + i})
		}
	}
	var h []Op
	for i := range sizes {
		h = append(h, Op{K: "A", I: i, J: 0})
	}
	for j := 1; j < 70; j++ { // round robin, youngest session first
		for i := len(sizes) - 1; i >= 0; i-- {
			if j < sizes[i]-1 {
				h = append(h, Op{K: "A", I: i, J: j})
			}
		}
	}
	for k := range cfg.Logins {
		li := k
		if youngestFirst {
			li = len(cfg.Logins) - 1 - k
		}
		h = append(h, Op{K: "L", I: li})
	}
	for i, n := range sizes { // the last record of each, after the logins
		h = append(h, Op{K: "A", I: i, J: n - 1})
	}
	return linear(run, cfg, h, "held-together", "eight sessions held at once (2 ... 70 records each, two of them without login)")
}

// runBFS is the entry point for the history checks.
func runBFS(run *mc.Run) int {
	if run.Replay != "" {
		var rp struct {
			Config  string `json:"config"`
			History []Op   `json:"history"`
		}
		if _, err := mc.LoadReplay(run.Replay, &rp); err != nil {
			fmt.Println("cannot load replay:", err)
			return 2
		}
		cfg := configByName(run.Prop, rp.Config)
		if cfg == nil {
			fmt.Println("unknown config", rp.Config)
			return 2
		}
		ReplayHistory(run, cfg, rp.History)
		if run.Violations() > 0 {
			return 1
		}
		return 0
	}
	cov := mc.Coverage{Level: "model_checking", Exhaustive: true, Extra: map[string]any{}}
	cov.Rule = "explicit-state breadth-first search over operation histories on the real sessionTracker (fresh instance + replay of the shortest history per state); state = reflective dump of the tracker's private state (times as ranks) + reference-model state; every Iterate order explored; oracles evaluated after every transition. distinct_nontrivial = states with >=2 sessions open at once or reached by a login that released held events"
	var per []map[string]any
	for _, cfg := range configs(run.Prop, run.Thorough()) {
		if !selfCheckDeterminism(cfg) {
			fmt.Println("harness self-check failed: two replays of one history differ")
			return 2
		}
		r := Search(run, cfg)
		cov.States += r.States
		cov.Transitions += r.Transitions
		cov.Traces += r.Replays
		cov.Evaluations += r.Transitions
		cov.Distinct += r.NonTrivial
		if !r.Complete {
			cov.Exhaustive = false
		}
		for _, s := range r.Samples {
			cov.Samples = append(cov.Samples, cfg.Name+": "+s)
		}
		per = append(per, map[string]any{"config": cfg.Name, "states": r.States, "transitions": r.Transitions,
			"max_depth": r.MaxDepth, "closure_reached": r.Complete, "sessions": len(cfg.Sess), "logins": len(cfg.Logins),
			"transitions_with_nonidentity_iteration_order": r.PermChoices, "fan_out_transitions_every_record_type": r.FanOut, "states_left_unjudged_outside_property_domain": r.Unspecified})
		fmt.Printf("%s: states=%d transitions=%d depth=%d complete=%v nontrivial=%d permchoices=%d\n", cfg.Name, r.States, r.Transitions, r.MaxDepth, r.Complete, r.NonTrivial, r.PermChoices)
	}
	if run.Prop == "C01" || run.Prop == "C02" {
		m := 300
		if run.Thorough() {
			m = 3000
		}
		ops := manySessions(run, m)
		cov.Transitions += ops
		cov.Evaluations += ops
		per = append(per, map[string]any{"config": "many-sessions (linear history)", "sessions_in_flight": m, "operations": ops})
	}
	if run.Prop == "C02" || run.Prop == "C01" {
		m := 5000
		if run.Thorough() {
			m = 70000 // past 2^16 uses
		}
		ops := agedTracker(run, m)
		cov.Transitions += ops
		cov.Evaluations += ops
		per = append(per, map[string]any{"config": "aged-tracker (linear history)", "earlier_complete_sessions": m, "operations": ops})
	}
	if run.Prop == "C02" || run.Prop == "C09" || run.Prop == "C10" {
		n := 3000
		if run.Thorough() {
			n = 30000
		}
		ops := longSession(run, n)
		cov.Transitions += ops
		cov.Evaluations += ops
		per = append(per, map[string]any{"config": "long-held-session (linear history)", "events_held_before_login": n, "operations": ops})
	}
	if run.Prop == "C16" {
		m := 33000 // past 2^15 waiting at once
		if run.Thorough() {
			m = 70000 // past 2^16
		}
		ops := manyWaitingLogins(run, m)
		cov.Transitions += ops
		cov.Evaluations += ops
		per = append(per, map[string]any{"config": "many-waiting-logins (linear history)", "logins_waiting_at_once": m + 1, "operations": ops})
	}
	if run.Prop == "C04" || run.Prop == "C01" || run.Prop == "C02" {
		ops := heldTogether(run, false) + heldTogether(run, true)
		cov.Transitions += ops
		cov.Evaluations += ops
		per = append(per, map[string]any{"config": "held-together (two linear histories)", "sessions_held_at_once": 8, "operations": ops})
	}
	cov.Extra["configs"] = per
	cov.Assumptions = []string{"alphabet bounded as listed in configs; ids are not reused inside an alphabet except where C09 says so",
		"time.Now is owned by spinning until the clock has strictly advanced between operations; cut-offs are instants recorded between operations"}
	return run.Finish(cov)
}

// selfCheckDeterminism replays one fixed history twice and compares keys and output.
func selfCheckDeterminism(cfg *Config) bool {
	s := &searcher{cfg: cfg, seen: map[string]bool{}}
	var h []step
	w, sp := s.replay(nil)
	w.Close()
	for i := 0; i < 8; i++ {
		ops := s.enabled(sp)
		if len(ops) == 0 {
			break
		}
		h = append(h, ops[i%len(ops)])
		w, sp = s.replay(h)
		w.Close()
	}
	w1, s1 := s.replay(h)
	w2, s2 := s.replay(h)
	defer w1.Close()
	defer w2.Close()
	e1, e2 := w1.Rec.From(0), w2.Rec.From(0)
	if w1.Key() != w2.Key() || s1.Key() != s2.Key() || len(e1) != len(e2) {
		return false
	}
	for i := range e1 {
		if e1[i].Label != e2[i].Label || e1[i].Identity != e2[i].Identity {
			return false
		}
	}
	return true
}
