// Package ptracker holds the checks that drive the real session tracker
// (processors/auditd/sessiontracker) through its API: explicit-state search
// over operation histories (C01, C02, C04, C09, C16, part of C14) and
// interleaving exploration under the cooperative scheduler (C03).
package ptracker

import (
	"encoding/json"
	"fmt"
	"os"
	"reflect"
	"regexp"
	"sort"
	"strconv"
	"strings"
	"sync"
	"time"
	"unsafe"

	"github.com/elastic/go-libaudit/v2/aucoalesce"
	"github.com/elastic/go-libaudit/v2/auparse"
	"github.com/metal-toolbox/auditevent"
	"go.uber.org/zap"

	"github.com/metal-toolbox/audito-maldito/internal/common"
	"github.com/metal-toolbox/audito-maldito/internal/verif/collide"
	"github.com/metal-toolbox/audito-maldito/internal/verif/dump"
	"github.com/metal-toolbox/audito-maldito/internal/verif/mc"
	"github.com/metal-toolbox/audito-maldito/internal/verif/vsync"
	"github.com/metal-toolbox/audito-maldito/processors/auditd/sessiontracker"
)

// tracker is the API of the (unexported) sessionTracker type.
type tracker interface {
	RemoteLogin(common.RemoteUserLogin) error
	AuditdEvent(*aucoalesce.Event) error
	DeleteUsersWithoutLoginsBefore(time.Time)
	DeleteRemoteUserLoginsBefore(time.Time)
}

// Emitted is one event that reached the output writer.
type Emitted struct {
	Sess     string // metadata.auditId
	Label    string // metadata.extra.action (the harness label of the audit event)
	Identity string // canonical JSON of subjects, source, target
	Type     string
	Raw      string
}

// Recorder is the io.Writer behind the production event writer.
type Recorder struct {
	mu      sync.Mutex
	Writes  []string
	Events  []Emitted
	Bad     []string // C10(a): payloads that are not exactly one JSON event line
	FailAt  int      // fail the k-th write from now (1-based), 0 = never
	nwrites int
	// NoPoints: writes are no scheduling points (programs with thousands of writes, whose lock
	// acquisitions are the steps of interest)
	NoPoints bool
}

var errInjected = fmt.Errorf("injected write failure")

func identityOf(e *auditevent.AuditEvent) string {
	b, _ := json.Marshal(map[string]any{"subjects": e.Subjects, "source": e.Source, "target": e.Target})
	return string(b)
}

func (r *Recorder) Write(p []byte) (int, error) {
	if !r.NoPoints {
		vsync.Point(r, "WriteEvent") // under the scheduler every output write is a visible step
	}
	r.mu.Lock()
	defer r.mu.Unlock()
	r.nwrites++
	if r.FailAt > 0 && r.nwrites >= r.FailAt {
		return 0, errInjected
	}
	r.Writes = append(r.Writes, string(p))
	return len(p), nil
}

// parse decodes the payloads not yet decoded (lazily: replays of history
// prefixes never need it).
func (r *Recorder) parse() {
	for len(r.Events)+len(r.Bad) < len(r.Writes) {
		s := r.Writes[len(r.Events)+len(r.Bad)]
		var ev auditevent.AuditEvent
		dec := json.NewDecoder(strings.NewReader(s))
		dec.DisallowUnknownFields()
		if !strings.HasSuffix(s, "\n") || strings.Count(s, "\n") != 1 || dec.Decode(&ev) != nil || ev.Type == "" {
			r.Bad = append(r.Bad, s)
			r.Events = append(r.Events, Emitted{Type: "BAD", Raw: s})
			continue
		}
		lbl, _ := ev.Metadata.Extra["action"].(string)
		r.Events = append(r.Events, Emitted{Sess: ev.Metadata.AuditID, Label: lbl, Identity: identityOf(&ev), Type: ev.Type, Raw: strings.TrimSpace(s)})
	}
}

// From returns the events emitted since the first n.
func (r *Recorder) From(n int) []Emitted {
	r.mu.Lock()
	defer r.mu.Unlock()
	r.parse()
	return r.Events[n:]
}

func (r *Recorder) Len() int {
	r.mu.Lock()
	defer r.mu.Unlock()
	return len(r.Writes)
}

// SessDef is the script of one audit session: events are processed in order.
type SessDef struct {
	ID     string // session id ("" and "unset" allowed)
	PID    string // process id printed in its LOGIN record
	Events []auparse.AuditMessageType
	Live   bool // record timestamps lie a few seconds before the wall clock (a live stream) instead of in 2023
}

// LoginDef is one SSH login.
type LoginDef struct {
	PID int
	// SameAs > 0: this login is a re-delivery of login SameAs-1 (the same sshd line processed again): identical
	// pid, user, credential, address and port, but an event and an arrival time of its own
	SameAs int
}

// World is a fresh tracker with everything the harness needs to drive it.
type World struct {
	Rec    *Recorder
	EW     *auditevent.EventWriter
	T      tracker
	Sess   []SessDef
	Logins []LoginDef
	events [][]*aucoalesce.Event
	ruls   []common.RemoteUserLogin
	snapEv []*auditevent.AuditEvent // deep copy of each login's event at creation
	snaps  []string                 // its JSON (lazily)
	ident  []string                 // its identity rendering (lazily)
	ticks  []time.Time
	last   time.Time
	d      *dump.Dumper
	ch     *chooser
	owned  []unsafe.Pointer

	// concurrent mode (C03): no per-op bookkeeping; cleanup cut-off fixed
	concMode bool
	cut      time.Time
}

// now returns a strictly increasing real time.
func (w *World) now() time.Time {
	for {
		t := time.Now()
		if t.After(w.last) {
			w.last = t
			return t
		}
	}
}

var evLabels [16][16]string

func init() {
	for s := range evLabels {
		for i := range evLabels[s] {
			evLabels[s][i] = fmt.Sprintf("s%de%d", s, i)
		}
	}
}

func evLabel(s, i int) string {
	if s < len(evLabels) && i < len(evLabels[s]) {
		return evLabels[s][i]
	}
	return fmt.Sprintf("s%de%d", s, i)
}

func xLabel(s int) string { return fmt.Sprintf("s%dx", s) }

// trackerLogger: the tracker runs with a debug-level logger (output encoded, then discarded) so that its logging
// statements - which evaluate tracker state - are part of what is explored. VERIF_NO_DEBUG_LOG=1 gives nil.
var trackerLogger = func() *zap.SugaredLogger {
	if os.Getenv("VERIF_NO_DEBUG_LOG") != "" {
		return nil
	}
	return mc.DebugLogger()
}()

func NewWorld(sess []SessDef, logins []LoginDef) *World {
	w := &World{Rec: &Recorder{}, Sess: sess, Logins: logins}
	w.EW = auditevent.NewDefaultAuditEventWriter(w.Rec)
	w.T = sessiontracker.NewSessionTracker(w.EW, trackerLogger)
	w.register()
	labels := map[unsafe.Pointer]string{}
	base := time.Unix(1700000000, 0).UTC()
	for si, sd := range sess {
		var evs []*aucoalesce.Event
		for ei, typ := range sd.Events {
			// The tracker must not depend on kernel stamps or on the record's free-form data: odd sessions
			// carry DEcreasing timestamps/serials (late records, a clock stepped back), and every LOGIN
			// record names another tracked session as the one its process came from (old-ses, as the kernel
			// prints it for su -l / sudo -i under pam_loginuid).
			stamp := si*100 + ei
			if si%2 == 1 {
				stamp = si*100 + 90 - ei
			} else if ei > 2 {
				stamp = si*100 + 2 // ... and in even sessions time stands still from the third event on
			}
			var data map[string]string
			if typ == auparse.AUDIT_LOGIN {
				data = map[string]string{"old-ses": "4294967295", "old-auid": "4294967295", "auid": "1000", "tty": "(none)"}
				if len(sess) > 1 {
					data["old-ses"] = sess[(si+len(sess)-1)%len(sess)].ID
				}
			}
			ts := base.Add(time.Duration(stamp) * time.Second)
			if sd.Live {
				// a live stream: the kernel logged the record 21-30 s ago (the time it spent in the pipe and in the
				// reassembler). A session's age counts from when the tracker saw it, not from the record's own time
				ts = time.Now().Add(-30 * time.Second).Add(time.Duration(stamp-si*100) * 100 * time.Millisecond)
			}
			e := &aucoalesce.Event{
				Timestamp: ts,
				Sequence:  uint32(stamp),
				Data:      data,
				Type:      typ,
				Session:   sd.ID,
				Result:    "success",
				Summary:   aucoalesce.Summary{Action: evLabel(si, ei), How: "how", Object: aucoalesce.Object{Type: "t", Primary: "o"}},
				Process:   aucoalesce.Process{PID: sd.PID},
			}
			// Everything else an event carries is decoration as far as correlation goes (session id, record type and
			// the pid of the LOGIN record decide): it is filled with values that point at OTHER tracked logins and
			// sessions, so that any use of it for correlation, session end or identity shows up as a difference.
			other := sess[(si+1)%len(sess)]
			if typ == auparse.AUDIT_CRED_DISP && si%2 == 0 {
				e.Result = "fail" // a credential disposal that reports failure is the session's credential disposal all the same
			}
			e.Process.PPID = other.PID // the parent happens to be another login's sshd
			e.Process.Name, e.Process.CWD, e.Process.Title = "sshd", "/", "sshd: user [priv]"
			switch {
			case typ == auparse.AUDIT_CRED_DISP && si%2 == 0:
				e.Process.Exe = "/usr/sbin/sshd (deleted)" // sshd was upgraded on disk while the session was open
			case typ == auparse.AUDIT_CRED_DISP:
				e.Process.Exe = "/usr/lib/openssh/sshd-session" // OpenSSH >= 9.8 runs sessions in a separate binary
			case si%2 == 1:
				e.Process.Exe = "/usr/sbin/sshd (deleted)"
			case ei%2 == 1:
				e.Process.Exe = "/usr/bin/sudo"
			default:
				e.Process.Exe = "/usr/sbin/sshd"
			}
			if ei%2 == 0 {
				e.Process.Args = []string{"sh", "-c", strings.Repeat("x", 300)}
			}
			e.User.IDs = map[string]string{"auid": "1000", "uid": "0", "old-auid": "4294967295"}
			e.User.Names = map[string]string{"auid": "user-of-" + other.ID, "uid": "root"}
			e.Tags = []string{"session-" + other.ID}
			if e.Data == nil {
				e.Data = map[string]string{}
			}
			e.Data["pid"], e.Data["ses"], e.Data["acct"], e.Data["ppid"] = other.PID, other.ID, "user-of-"+other.ID, other.PID
			labels[unsafe.Pointer(e)] = evLabel(si, ei)
			evs = append(evs, e)
		}
		w.events = append(w.events, evs)
	}
	w.d = &dump.Dumper{Labels: labels, SkipType: skipType}
	w.ruls = make([]common.RemoteUserLogin, len(logins))
	w.snaps = make([]string, len(logins))
	w.snapEv = make([]*auditevent.AuditEvent, len(logins))
	w.ident = make([]string, len(logins))
	return w
}

func skipType(t reflect.Type) bool {
	s := t.String()
	switch {
	case strings.HasSuffix(s, "sync.Mutex"), strings.HasSuffix(s, "sync.RWMutex"),
		s == "*auditevent.EventWriter", s == "*zap.SugaredLogger", s == "*zap.Logger":
		return true
	}
	return false
}

// The account names and credential ids of the logins are different strings of equal length that share their
// 32-bit checksum with login 0's (account names: FNV-1a for login 1, FNV-1 for login 2; credential ids: CRC-32 for
// login 1, FNV-1a for login 2) - whoever keys identity values by such a checksum mixes the logins up.
var loginNames, credNames = func() (ln, cn []string) {
	ln, cn = []string{"usr0-AAAAAA"}, []string{"crd0-AAAAAA"}
	for i, hs := range [][2]int{{0, 2}, {1, 0}} {
		pre := fmt.Sprintf("usr%d-", i+1)
		x := collide.Hashes[hs[0]].Fill(ln[0], pre, "")
		if x == "" {
			x = "BBBBBB"
		}
		ln = append(ln, pre+x)
		pre = fmt.Sprintf("crd%d-", i+1)
		if x = collide.Hashes[hs[1]].Fill(cn[0], pre, ""); x == "" {
			x = "BBBBBB"
		}
		cn = append(cn, pre+x)
	}
	return ln, cn
}()

func loginName(i int) string {
	if i < len(loginNames) {
		return loginNames[i]
	}
	return fmt.Sprintf("user%d", i)
}

func credName(i int) string {
	if i < len(credNames) {
		return credNames[i]
	}
	return fmt.Sprintf("cred%d", i)
}

// mkLogin builds login i (at its arrival, like the sshd processor does).
func (w *World) mkLogin(idx int) common.RemoteUserLogin {
	ld := w.Logins[idx]
	i := idx
	if ld.SameAs > 0 {
		i = ld.SameAs - 1 // identity content of the original
	}
	evt := auditevent.NewAuditEvent(common.ActionLoginIdentifier,
		auditevent.EventSource{Type: "IP", Value: fmt.Sprintf("10.0.0.%d", i+1), Extra: map[string]any{"port": strconv.Itoa(50000 + i)}},
		auditevent.OutcomeSucceeded,
		map[string]string{"loggedAs": loginName(i), "userID": credName(i), "pid": strconv.Itoa(ld.PID)},
		"sshd").WithTarget(map[string]string{"host": fmt.Sprintf("node%d", i), "machine-id": "m"})
	evt.Metadata.AuditID = fmt.Sprintf("login-%d", i)
	evt.LoggedAt = w.now()
	rul := common.RemoteUserLogin{Source: evt, PID: ld.PID, CredUserID: credName(i)}
	w.ruls[idx] = rul
	w.snapEv[idx] = cloneEvent(evt)
	w.d.Labels[unsafe.Pointer(evt)] = fmt.Sprintf("L%d", idx)
	return rul
}

// Op is one operation of a history.
type Op struct {
	K    string `json:"k"`           // "L" login, "A" audit event, "CU" / "CR" / "C" cleanup
	I    int    `json:"i,omitempty"` // login index, or session index
	J    int    `json:"j,omitempty"` // event index within the session script
	Cut  int    `json:"cut,omitempty"`
	Perm []int  `json:"perm,omitempty"` // Iterate-order choices taken inside the op
	Typ  int    `json:"typ,omitempty"`  // "X": an extra event of this record type for session I (C04 fan-out)
}

func (o Op) String() string {
	switch o.K {
	case "L":
		return fmt.Sprintf("L%d", o.I)
	case "A":
		return fmt.Sprintf("A(s%d,e%d)", o.I, o.J)
	case "X":
		return fmt.Sprintf("X(s%d,%s)", o.I, auparse.AuditMessageType(o.Typ))
	default:
		return fmt.Sprintf("%s(cut=%d)", o.K, o.Cut)
	}
}

// chooser feeds common.VerifIterOrder in sequential mode.
type chooser struct {
	pre   []int
	sizes []int
	taken []int
}

func (c *chooser) choose(n int) int {
	if n <= 1 {
		return 0
	}
	i := len(c.taken)
	v := 0
	if i < len(c.pre) {
		v = c.pre[i]
		if v >= n {
			panic(fmt.Sprintf("chooser: replay divergence: choice %d of %d", v, n))
		}
	}
	c.sizes = append(c.sizes, n)
	c.taken = append(c.taken, v)
	return v
}

// owners maps each GenericSyncMap of a live world to that world, so that the
// Iterate hook (which only knows the map) finds the chooser of the operation in
// progress. Search workers run in parallel, one world each.
var owners sync.Map

func (w *World) register() {
	v := reflect.ValueOf(w.T)
	if v.Kind() == reflect.Ptr {
		v = v.Elem()
	}
	if v.Kind() != reflect.Struct {
		return
	}
	for i := 0; i < v.NumField(); i++ {
		f := v.Field(i)
		if f.Kind() == reflect.Ptr && !f.IsNil() && strings.Contains(f.Type().String(), "GenericSyncMap[") {
			p := unsafe.Pointer(f.Pointer())
			w.owned = append(w.owned, p)
			owners.Store(p, w)
		}
	}
}

// Close forgets the world.
func (w *World) Close() {
	for _, p := range w.owned {
		owners.Delete(p)
	}
}

// schedChoose is set while the cooperative scheduler explores (C03).
var schedChoose func(n int) int

// chooseFn is what VerifIterOrder consults: the scheduler, or the chooser of
// the world that owns the map being iterated.
func chooseFn(owner any, n int) int {
	if schedChoose != nil {
		return schedChoose(n)
	}
	v := reflect.ValueOf(owner)
	if v.Kind() == reflect.Ptr {
		if w, ok := owners.Load(unsafe.Pointer(v.Pointer())); ok {
			if c := w.(*World).ch; c != nil {
				return c.choose(n)
			}
		}
	}
	return 0
}

func setChooser(w *World, c *chooser) { w.ch = c }

func fact(n int) int {
	f := 1
	for i := 2; i <= n; i++ {
		f *= i
	}
	return f
}

// nthPerm returns the k-th permutation of 0..n-1 (k=0 is the identity).
func nthPerm(n, k int) []int {
	items := make([]int, n)
	for i := range items {
		items[i] = i
	}
	if k == 0 || n > 12 {
		return items // identity (large maps are not permuted: n! does not fit)
	}
	out := make([]int, 0, n)
	for i := n; i >= 1; i-- {
		f := fact(i - 1)
		j := k / f
		k %= f
		out = append(out, items[j])
		items = append(items[:j], items[j+1:]...)
	}
	return out
}

func init() {
	vsync.LockTimeout = 3 * time.Second
	common.VerifIterOrder = func(owner any, n int) []int {
		if n <= 1 || n > 4 {
			return nthPerm(n, 0)
		}
		return nthPerm(n, chooseFn(owner, fact(n)))
	}
}

// Apply performs op on the real tracker. idx is the op's index in the history.
func (w *World) Apply(op Op) error {
	w.ticks = append(w.ticks, w.now()) // ticks[k] = instant just before the k-th op
	defer w.now()
	if op.Cut < 0 || op.Cut >= len(w.ticks) {
		panic(fmt.Sprintf("bad cut %d at op %d", op.Cut, len(w.ticks)-1))
	}
	switch op.K {
	case "L":
		return w.T.RemoteLogin(w.mkLogin(op.I))
	case "A":
		return w.T.AuditdEvent(w.events[op.I][op.J])
	case "X":
		sd := w.Sess[op.I]
		e := &aucoalesce.Event{Timestamp: time.Unix(1700009999, 0).UTC(), Type: auparse.AuditMessageType(op.Typ), Session: sd.ID,
			Result: "success", Summary: aucoalesce.Summary{Action: xLabel(op.I)}, Process: aucoalesce.Process{PID: sd.PID}}
		w.d.Labels[unsafe.Pointer(e)] = xLabel(op.I)
		return w.T.AuditdEvent(e)
	case "CU":
		w.T.DeleteUsersWithoutLoginsBefore(w.ticks[op.Cut])
	case "CR":
		w.T.DeleteRemoteUserLoginsBefore(w.ticks[op.Cut])
	case "C":
		w.T.DeleteUsersWithoutLoginsBefore(w.ticks[op.Cut])
		w.T.DeleteRemoteUserLoginsBefore(w.ticks[op.Cut])
	default:
		panic("bad op " + op.K)
	}
	return nil
}

// applyConc performs op without touching harness bookkeeping (thread bodies
// of the concurrent programs): logins were created in setup, cleanup uses the
// instant recorded after the prefix.
func (w *World) applyConc(op Op) error {
	switch op.K {
	case "L":
		return w.T.RemoteLogin(w.ruls[op.I])
	case "A":
		return w.T.AuditdEvent(w.events[op.I][op.J])
	case "CU":
		w.T.DeleteUsersWithoutLoginsBefore(w.cut)
	case "CR":
		w.T.DeleteRemoteUserLoginsBefore(w.cut)
	default:
		panic("bad op " + op.K)
	}
	return nil
}

var tickRE = regexp.MustCompile(`⟦(-?\d+)⟧`)

// Key is the canonical rendering of the tracker's private state. Times are
// rendered as the rank (among the times present) of the operation during
// which they were taken, so histories of different length can merge.
func (w *World) Key() string {
	if w.concMode {
		w.d.Time = func(t time.Time) string {
			if t.Before(w.cut) {
				return "old"
			}
			return "new"
		}
		return w.d.String(w.T)
	}
	w.d.Time = func(t time.Time) string {
		// index j with ticks[j] <= t < ticks[j+1]
		j := sort.Search(len(w.ticks), func(i int) bool { return w.ticks[i].After(t) }) - 1
		return fmt.Sprintf("⟦%d⟧", j)
	}
	s := w.d.String(w.T)
	set := map[int]bool{}
	for _, m := range tickRE.FindAllStringSubmatch(s, -1) {
		j, _ := strconv.Atoi(m[1])
		set[j] = true
	}
	var idx []int
	for j := range set {
		idx = append(idx, j)
	}
	sort.Ints(idx)
	rank := map[int]int{}
	for r, j := range idx {
		rank[j] = r
	}
	return tickRE.ReplaceAllStringFunc(s, func(m string) string {
		j, _ := strconv.Atoi(tickRE.FindStringSubmatch(m)[1])
		return fmt.Sprintf("@%d", rank[j])
	})
}

// LoginUnchanged reports whether login i's stored event still equals its
// snapshot taken at creation (C14: emitting never alters the stored login).
func (w *World) LoginUnchanged(i int) bool {
	if w.ruls[i].Source == nil {
		return true
	}
	if w.snaps[i] == "" {
		b, _ := json.Marshal(w.snapEv[i])
		w.snaps[i] = string(b)
	}
	b, _ := json.Marshal(w.ruls[i].Source)
	return string(b) == w.snaps[i]
}

// Ident returns the identity rendering of login i as it was created.
func (w *World) Ident(i int) string {
	if w.ident[i] == "" && w.snapEv[i] != nil {
		w.ident[i] = identityOf(w.snapEv[i])
	}
	return w.ident[i]
}

func cloneEvent(e *auditevent.AuditEvent) *auditevent.AuditEvent {
	c := *e
	c.Subjects = map[string]string{}
	for k, v := range e.Subjects {
		c.Subjects[k] = v
	}
	c.Target = map[string]string{}
	for k, v := range e.Target {
		c.Target[k] = v
	}
	c.Source.Extra = map[string]any{}
	for k, v := range e.Source.Extra {
		c.Source.Extra[k] = v
	}
	return &c
}
