# sourced by bin/check and bin/setup
export GOFLAGS=-mod=mod GOPROXY=off GOSUMDB=off GOTOOLCHAIN=local GONOSUMDB='*' GONOSUMCHECK=1 GOFLAGS=-mod=mod
export CGO_ENABLED=1
GO=go1.26.8
export GO
